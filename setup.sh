#!/bin/bash
# Build step: everything is interpreted; parse every TLA+ module with SANY so that a broken spec fails here.
set -e
cd "$(dirname "$0")"
mkdir -p evidence replay
fail=0
for f in spec/*.tla; do
  case "$f" in *_TTrace_*) continue;; esac   # error-trace specs TLC may leave behind are not part of the specification
  out=$(cd spec && java -cp /opt/veriftools/tla/tla2tools.jar:/opt/veriftools/tla/CommunityModules-deps.jar tla2sany.SANY "$(basename "$f")" 2>&1) || true
  if echo "$out" | grep -q -E "Semantic errors|Parse Error|\*\*\* Errors|Could not find module|Fatal errors"; then echo "SANY FAILED: $f"; echo "$out" | tail -20; fail=1; fi
done
/venv/bin/python -c "import sys; sys.path.insert(0, '.'); from harness import common, shim, tlc, project; print('harness imports ok')"
exit $fail
