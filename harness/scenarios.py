"""Operation scenarios shared by the crash (C05), power-loss (C06) and fault (C17) drivers.

A scenario = a pre-state (objects in given storage forms, built with the real library), one public operation with
concrete parameters, and what the operation means for the key->content map: which keys it adds, which keys it
deletes.  Keys are names of the content table (k1..k8 small, kb big).
"""
from __future__ import annotations

import hashlib
import io
import os

from . import common

BIG = common._pseudo_random(300_000, 77) + b'Z' * 400_000  # pylint: disable=protected-access


def table():
    data = dict(common.small_contents().table)
    data['kb'] = BIG
    return common.Contents(data)


UNIVERSE = ['k1', 'k2', 'k3', 'k4', 'k5', 'k6', 'k7', 'k8', 'kb']


class Scenario:
    def __init__(self, name, pre, op, adds=(), deletes=(), target=10 ** 9, repack=False, kind='', damaged=(),
                 default_sync=True):
        self.name = name
        self.pre = pre  # list of (key, form) with form in loose / packed / packedz / both / bothz
        self.op = op  # callable(container, contents) -> result
        self.adds = list(adds)
        self.deletes = list(deletes)
        self.target = target
        self.repack = repack
        self.kind = kind or name.split(':')[0]
        self.damaged = list(damaged)
        self.default_sync = default_sync  # False: the call passes do_fsync=False (outside C06, inside C05/C17)

    def acked(self):
        return sorted({k for k, _ in self.pre})

    def build(self, folder, contents, hash_type='sha256'):
        """Create the pre-state in ``folder`` with the real library (no tracing active)."""
        from disk_objectstore import Container  # pylint: disable=import-outside-toplevel

        cont = Container(folder)
        cont.init_container(pack_size_target=self.target, loose_prefix_len=2, hash_type=hash_type)
        for key, form in self.pre:
            data = contents[key]
            if form in ('packed', 'both'):
                cont.add_objects_to_pack([data], compress=False)
            if form in ('packedz', 'bothz'):
                cont.add_objects_to_pack([data], compress=True)
            if form in ('loose', 'both', 'bothz'):
                cont.add_object(data)
        for key in self.damaged:
            path = cont._get_loose_path_from_hashkey(hashlib.new(hash_type, contents[key]).hexdigest())  # pylint: disable=protected-access
            with open(path, 'r+b') as handle:
                handle.write(b'\xff')
        cont.close()


def _add(key, stream=False):
    def op(cont, contents):
        if stream:
            return cont.add_streamed_object(io.BytesIO(contents[key]))
        return cont.add_object(contents[key])
    return op


def _pack(mode, perpack, validate=True, do_fsync=True):
    def op(cont, contents):  # pylint: disable=unused-argument
        from disk_objectstore import CompressMode  # pylint: disable=import-outside-toplevel
        cont.pack_all_loose(compress=CompressMode[mode], clean_loose_per_pack=perpack, validate_objects=validate,
                            do_fsync=do_fsync)
    return op


def _clean(vacuum):
    def op(cont, contents):  # pylint: disable=unused-argument
        cont.clean_storage(vacuum=vacuum)
    return op


def _addpack(keys, z, noholes, twice, streamed=False, do_fsync=True):
    def op(cont, contents):
        if streamed:
            return cont.add_streamed_objects_to_pack([io.BytesIO(contents[k]) for k in keys], compress=z,
                                                     no_holes=noholes, no_holes_read_twice=twice, do_fsync=do_fsync)
        return cont.add_objects_to_pack([contents[k] for k in keys], compress=z, no_holes=noholes,
                                        no_holes_read_twice=twice, do_fsync=do_fsync)
    return op


def _chain_then_pack(keys, perpack):
    """A direct add whose index rows stay uncommitted (the public do_commit=False), then pack_all_loose on the same handle."""
    def op(cont, contents):
        cont.add_objects_to_pack([contents[k] for k in keys], compress=False, do_commit=False)
        cont.pack_all_loose(clean_loose_per_pack=perpack)
    return op


def _then(*ops):
    """Several calls through the same handle, one after the other (what the first leaves behind in the handle matters)."""
    def op(cont, contents):
        out = None
        for one in ops:
            out = one(cont, contents)
        return out
    return op


def _delete(keys):
    def op(cont, contents):
        return cont.delete_objects([hashlib.sha256(contents[k]).hexdigest() for k in keys])
    return op


def _repack(mode):
    def op(cont, contents):  # pylint: disable=unused-argument
        from disk_objectstore import CompressMode  # pylint: disable=import-outside-toplevel
        cont.repack(compress_mode=CompressMode[mode])
    return op


def _loosen(key):
    def op(cont, contents):
        cont.loosen_object(hashlib.sha256(contents[key]).hexdigest())
    return op


def _import(keys, src_forms, budget, same=True, z=False, do_fsync=True):
    def op(cont, contents):
        from disk_objectstore import Container  # pylint: disable=import-outside-toplevel
        src_folder = os.path.join(os.path.dirname(str(cont.get_folder())), 'src')
        src_hash = 'sha256' if same else 'sha1'
        src = Container(src_folder)
        if not src.is_initialised:
            src.init_container(hash_type=src_hash, loose_prefix_len=2)
            for key, form in src_forms:
                if form == 'loose':
                    src.add_object(contents[key])
                else:
                    src.add_objects_to_pack([contents[key]], compress=form == 'packedz')
        try:
            wanted = [hashlib.new(src_hash, contents[k]).hexdigest() for k in keys]
            return cont.import_objects(wanted, src, compress=z, target_memory_bytes=budget, do_fsync=do_fsync)
        finally:
            src.close()
    return op


def all_scenarios(thorough=False):
    s = []
    base = [('k1', 'loose'), ('k2', 'packed'), ('k3', 'packedz'), ('k5', 'both'), ('k6', 'loose')]
    s.append(Scenario('add:new', base, _add('k7'), adds=['k7']))
    s.append(Scenario('add:new-stream-big', base, _add('kb', True), adds=['kb']))
    s.append(Scenario('add:dup-loose', base, _add('k1'), adds=['k1']))
    s.append(Scenario('add:dup-packed', base, _add('k2'), adds=['k2']))
    s.append(Scenario('add:empty', base, _add('k4'), adds=['k4']))
    s.append(Scenario('add:over-damaged', [('k1', 'loose'), ('k2', 'packed')], _add('k1'), adds=['k1'], damaged=['k1']))
    loose_many = [('k1', 'loose'), ('k2', 'loose'), ('k3', 'loose'), ('k6', 'loose'), ('k8', 'packed'), ('k5', 'both')]
    for mode in ('NO', 'YES') + (('AUTO',) if thorough else ()):
        for perpack in (False, True):
            s.append(Scenario(f'pack:{mode}-perpack{int(perpack)}', loose_many, _pack(mode, perpack), target=100))
    s.append(Scenario('pack:NO-bigtarget', loose_many, _pack('NO', True)))
    s.append(Scenario('pack:NO-novalidate', loose_many, _pack('NO', False, validate=False), target=100))
    # an object of several chunks among small ones, all in one pack: a fault in the middle of its copy leaves a partial
    # copy behind in the pack, and the objects packed after it must still be recorded where they really are
    s.append(Scenario('pack:NO-big-among-small', [('k1', 'loose'), ('k2', 'loose'), ('kb', 'loose'), ('k3', 'loose'),
                                                   ('k6', 'loose'), ('k7', 'loose'), ('k8', 'packed')], _pack('NO', True)))
    s.append(Scenario('clean:plain', [('k1', 'both'), ('k2', 'bothz'), ('k3', 'loose'), ('k5', 'packed')], _clean(False)))
    s.append(Scenario('clean:vacuum', [('k1', 'both'), ('k2', 'bothz'), ('k3', 'loose'), ('k5', 'packed')], _clean(True)))
    pre_pack = [('k1', 'packed'), ('k2', 'loose'), ('k3', 'packedz')]
    for noholes, twice in ((False, True), (True, True), (True, False)):
        for z in (False, True):
            s.append(Scenario(f'addpack:nh{int(noholes)}-tw{int(twice)}-z{int(z)}', pre_pack,
                              _addpack(['k5', 'k1', 'k6', 'k5', 'k3', 'k7'], z, noholes, twice), adds=['k5', 'k6', 'k7', 'k1', 'k3'],
                              target=250))
    # batches whose last object appends nothing (known key with no_holes / the empty object): the earlier, new objects of the
    # batch must be durable all the same
    s.append(Scenario('addpack:nh1-known-last', pre_pack, _addpack(['k5', 'k6', 'k1'], False, True, True), adds=['k5', 'k6', 'k1']))
    s.append(Scenario('addpack:nh1-tw0-repeat-last', pre_pack, _addpack(['k5', 'k6', 'k5'], False, True, False), adds=['k5', 'k6']))
    s.append(Scenario('addpack:empty-last', pre_pack, _addpack(['k5', 'k6', 'k4'], False, False, True), adds=['k5', 'k6', 'k4']))
    # rows left uncommitted by a direct add (do_commit=False), then packing with per-pack cleaning through the same handle
    for perpack in (True, False):
        s.append(Scenario(f'chain-then-pack:perpack{int(perpack)}', [('k1', 'loose'), ('k2', 'loose'), ('k3', 'packed'), ('k6', 'loose')],
                          _chain_then_pack(['k1', 'k7'], perpack), adds=['k7', 'k1']))
    s.append(Scenario('addpack:streamed-big', pre_pack, _addpack(['kb', 'k7'], False, False, True, streamed=True),
                      adds=['kb', 'k7']))
    src_forms = [('k5', 'loose'), ('k6', 'packed'), ('k8', 'packedz'), ('k1', 'packed'), ('k7', 'loose')]
    for budget in (1, 200, 10 ** 8):
        s.append(Scenario(f'import:same-b{budget}', pre_pack, _import(['k5', 'k6', 'k8', 'k1', 'k7'], src_forms, budget),
                          adds=['k5', 'k6', 'k8', 'k1', 'k7'], target=300))
    s.append(Scenario('import:diff-b200', pre_pack, _import(['k5', 'k6', 'k8', 'k1', 'k7'], src_forms, 200, same=False, z=True),
                      adds=['k5', 'k6', 'k8', 'k1', 'k7'], target=300))
    # intermediate cache flushes followed by a roll-over to a new pack file (small budget, small pack target)
    many = [('k1', 'packed'), ('k2', 'loose'), ('k3', 'packedz'), ('k6', 'packed'), ('k7', 'loose'), ('k8', 'packed')]
    for budget, target in ((60, 30), (170, 30), (60, 160)):
        s.append(Scenario(f'import:same-b{budget}-t{target}', [('k5', 'packed')],
                          _import(['k1', 'k2', 'k3', 'k6', 'k7', 'k8'], many, budget), adds=['k1', 'k2', 'k3', 'k6', 'k7', 'k8'],
                          target=target))
    s.append(Scenario('import:diff-b60-t30', [('k5', 'packed')],
                      _import(['k1', 'k2', 'k3', 'k6', 'k7', 'k8'], many, 60, same=False), adds=['k1', 'k2', 'k3', 'k6', 'k7', 'k8'],
                      target=30))
    # non-default do_fsync=False variants (C05 and C17 quantify over parameter variants; C06 is about the defaults)
    s.append(Scenario('pack:NO-perpack1-nofsync', loose_many, _pack('NO', True, do_fsync=False), target=100, default_sync=False))
    s.append(Scenario('pack:YES-perpack0-nofsync', loose_many, _pack('YES', False, do_fsync=False), default_sync=False))
    s.append(Scenario('addpack:nh1-tw0-z0-nofsync', pre_pack, _addpack(['k5', 'k1', 'k6', 'k5', 'k3', 'k7'], False, True, False,
                                                                   do_fsync=False),
                      adds=['k5', 'k6', 'k7', 'k1', 'k3'], target=250, default_sync=False))
    s.append(Scenario('import:same-b60-t30-nofsync', [('k5', 'packed')],
                      _import(['k1', 'k2', 'k3', 'k6', 'k7', 'k8'], many, 60, do_fsync=False),
                      adds=['k1', 'k2', 'k3', 'k6', 'k7', 'k8'], target=30, default_sync=False))
    mixed = [('k1', 'loose'), ('k2', 'packed'), ('k3', 'packedz'), ('k5', 'both'), ('k6', 'packed'), ('k8', 'bothz')]
    s.append(Scenario('delete:loose', mixed, _delete(['k1']), deletes=['k1']))
    s.append(Scenario('delete:packed', mixed, _delete(['k2', 'k3']), deletes=['k2', 'k3']))
    s.append(Scenario('delete:both-and-absent', mixed, _delete(['k5', 'k8', 'k7', 'k1']), deletes=['k5', 'k8', 'k7', 'k1']))
    for mode in ('KEEP', 'YES', 'NO') + (('AUTO',) if thorough else ()):
        s.append(Scenario(f'repack:{mode}', [('k1', 'packed'), ('k2', 'packedz'), ('k3', 'packed'), ('k5', 'packedz'),
                                              ('k6', 'packed'), ('k8', 'loose')], _repack(mode), target=60, repack=True))
    # maintenance that ends in a VACUUM, then a pack-writing call through the same handle
    s.append(Scenario('repack-then-addpack', [('k1', 'packed'), ('k2', 'packedz'), ('k3', 'packed'), ('k8', 'loose')],
                      _then(_repack('KEEP'), _addpack(['k5', 'k6', 'k7'], False, False, True)), adds=['k5', 'k6', 'k7'], repack=True))
    s.append(Scenario('cleanvacuum-then-pack', [('k1', 'both'), ('k2', 'loose'), ('k3', 'loose'), ('k5', 'packed')],
                      _then(_clean(True), _pack('NO', True))))
    s.append(Scenario('loosen:packedz', mixed, _loosen('k3'), adds=['k3']))
    s.append(Scenario('loosen:packed', mixed, _loosen('k6'), adds=['k6']))
    s += history_scenarios(common.seed(), 60 if thorough else 12)
    return s


class HistoryScenario(Scenario):
    """A scenario whose pre-state is produced by a random history of public calls (so that the operation under test
    meets deleted objects, holes, several packs, objects in both forms, emptied packs, ...)."""

    def __init__(self, name, cfg, steps, op, adds=(), deletes=(), repack=False, default_sync=True):
        super().__init__(name, [], op, adds=adds, deletes=deletes, target=cfg['target'], repack=repack, default_sync=default_sync)
        self.cfg = cfg
        self.steps = steps
        self._acked = None

    def acked(self):
        return list(self._acked or [])

    def build(self, folder, contents, hash_type='sha256'):
        from disk_objectstore import Container  # pylint: disable=import-outside-toplevel
        from .drivers import seq  # pylint: disable=import-outside-toplevel

        base = os.path.dirname(folder)
        table, full = seq.contents()
        runner = seq.Runner.__new__(seq.Runner)
        runner.Container = Container
        runner.folder = folder
        runner.base = base
        runner.cfg = self.cfg
        runner.table, runner.full = table, full
        runner.hash = 'sha256'
        runner.handles = {}
        runner.current = 'h1'
        runner.sources = {}
        runner.norepack = True
        runner.key_of = {name: hashlib.sha256(data).hexdigest() for name, data in full.table.items()}
        runner.name_of = {v: k for k, v in runner.key_of.items()}
        first = Container(folder)
        first.init_container(pack_size_target=self.cfg['target'], loose_prefix_len=2, hash_type='sha256',
                             compression_algorithm=f"zlib+{self.cfg['zlevel']}")
        runner.handles['h1'] = first
        for step in self.steps:
            runner.call(step)
        for cont in runner.handles.values():
            cont.close()
        for cont, _h, _f in runner.sources.values():
            cont.close()
        probe = Container(folder)
        self._acked = [k for k in UNIVERSE if k in contents.table and probe.has_object(hashlib.sha256(contents[k]).hexdigest())]
        probe.close()


def history_scenarios(seed, count):
    """Random pre-histories followed by one operation under test."""
    from .drivers import seq  # pylint: disable=import-outside-toplevel
    rng = common.rng('history-scenarios', seed)
    out = []
    pool = ['k1', 'k2', 'k3', 'k5', 'k6', 'k7', 'k8']
    for index in range(count):
        cfg = {'hash': 'sha256', 'prefix': 2, 'zlevel': rng.choice([1, 9]), 'target': rng.choice([60, 200, 10 ** 9])}
        steps = []
        for _ in range(rng.randint(3, 7)):
            step = seq.random_step(rng, 'C11')
            if step['name'] in ('import', 'stray', 'initagain', 'reopen'):
                continue
            steps.append(step)
        kind = rng.choice(['pack', 'packpp', 'clean', 'repack', 'repack', 'delete', 'addpack', 'addpacknh', 'add'])
        keys = [rng.choice(pool) for _ in range(rng.randint(1, 3))]
        if kind == 'pack':
            scen = HistoryScenario(f'h{index}:pack', cfg, steps, _pack(rng.choice(['NO', 'YES']), False))
        elif kind == 'packpp':
            scen = HistoryScenario(f'h{index}:pack-perpack', cfg, steps, _pack(rng.choice(['NO', 'YES', 'AUTO']), True))
        elif kind == 'clean':
            scen = HistoryScenario(f'h{index}:clean', cfg, steps, _clean(rng.random() < 0.3))
        elif kind == 'repack':
            scen = HistoryScenario(f'h{index}:repack', cfg, steps, _repack(rng.choice(['KEEP', 'YES', 'NO', 'AUTO'])), repack=True)
        elif kind == 'delete':
            scen = HistoryScenario(f'h{index}:delete', cfg, steps, _delete(keys), deletes=keys)
        elif kind == 'addpack':
            scen = HistoryScenario(f'h{index}:addpack', cfg, steps, _addpack(keys, rng.random() < 0.5, False, True), adds=keys)
        elif kind == 'addpacknh':
            scen = HistoryScenario(f'h{index}:addpack-noholes', cfg, steps, _addpack(keys, rng.random() < 0.5, True, rng.random() < 0.5),
                                   adds=keys)
        else:
            scen = HistoryScenario(f'h{index}:add', cfg, steps, _add(keys[0]), adds=keys[:1])
        out.append(scen)
    return out
