"""Shared plumbing of the verification harness: paths, scratch space, content table, evidence files,
known findings and verdict printing.

Everything here is standard library only.  The library under test is imported from /repo's working
tree (``import_lib``), never from a snapshot.
"""
from __future__ import annotations

import contextlib
import hashlib
import itertools
import json
import os
import random
import shutil
import sys
import time
import zlib

VERIF = os.path.dirname(os.path.dirname(os.path.abspath(__file__)))
REPO = os.environ.get('VERIF_REPO', '/repo')
SPEC = os.path.join(VERIF, 'spec')
EVIDENCE = os.path.join(VERIF, 'evidence')
REPLAY = os.path.join(VERIF, 'replay')
KNOWN_FINDINGS = os.path.join(VERIF, 'KNOWN_FINDINGS.json')
GUARD = 'DISK_OBJECTSTORE_VERIF'

_SCRATCH_BASE = '/dev/shm' if os.path.isdir('/dev/shm') and os.access('/dev/shm', os.W_OK) else '/var/tmp'
_scratch_counter = itertools.count()


def seed() -> int:
    try:
        return int(os.environ.get('VERIF_SEED', '0'))
    except ValueError:
        return 0


def tier(default: str = 'quick') -> str:
    value = os.environ.get('VERIF_TIER', default)
    return value if value in ('quick', 'thorough') else default


def rng(*salt) -> random.Random:
    return random.Random(f'{seed()}:{":".join(map(str, salt))}')


def scratch_root() -> str:
    path = os.path.join(_SCRATCH_BASE, f'verif-{os.getpid()}')
    os.makedirs(path, exist_ok=True)
    return path


@contextlib.contextmanager
def scratch(prefix: str = 'w'):
    """A scratch directory on tmpfs that is removed on exit."""
    path = os.path.join(scratch_root(), f'{prefix}{next(_scratch_counter)}')
    os.makedirs(path)
    try:
        yield path
    finally:
        shutil.rmtree(path, ignore_errors=True)


def cleanup_scratch() -> None:
    shutil.rmtree(os.path.join(_SCRATCH_BASE, f'verif-{os.getpid()}'), ignore_errors=True)


def import_lib():
    """Import disk_objectstore from the current working tree of /repo."""
    if REPO not in sys.path:
        sys.path.insert(0, REPO)
    os.environ.setdefault(GUARD, '1')
    import disk_objectstore  # pylint: disable=import-outside-toplevel

    path = os.path.dirname(os.path.abspath(disk_objectstore.__file__))
    assert path.startswith(os.path.abspath(REPO)), f'library imported from {path}, expected under {REPO}'
    return disk_objectstore


# ------------------------------------------------------------------------------------------------
# Content table: a fixed universe of byte strings.  The specification's keys are the names k1..kn;
# the harness translates between names, bytes and digests.
# ------------------------------------------------------------------------------------------------


def _pseudo_random(n: int, salt: int) -> bytes:
    out = bytearray()
    counter = 0
    while len(out) < n:
        out += hashlib.sha256(f'{salt}:{counter}'.encode()).digest()
        counter += 1
    return bytes(out[:n])


class Contents:
    """A table name -> bytes with reverse lookups by digest."""

    def __init__(self, table: dict[str, bytes]):
        self.table = dict(table)
        self.names = list(table)
        self._by_digest: dict[str, str] = {}
        for name, data in table.items():
            for algo in ('sha1', 'sha256'):
                self._by_digest[hashlib.new(algo, data).hexdigest()] = name
        self._by_bytes = {data: name for name, data in table.items()}

    def __getitem__(self, name: str) -> bytes:
        return self.table[name]

    def key(self, name: str, hash_type: str = 'sha256') -> str:
        return hashlib.new(hash_type, self.table[name]).hexdigest()

    def name_of_key(self, hashkey: str) -> str:
        return self._by_digest.get(hashkey, 'k?')

    def name_of_bytes(self, data: bytes | None) -> str:
        if data is None:
            return 'NONE'
        return self._by_bytes.get(data, 'OTHER')

    def size(self, name: str) -> int:
        return len(self.table[name])

    def classify_bytes(self, name: str, data) -> str:
        """How ``data`` relates to the content called ``name``: OK / PARTIAL / OTHER:<name> / GARBAGE / NONE."""
        if data is None:
            return 'NONE'
        expected = self.table[name]
        if data == expected:
            return 'OK'
        other = self._by_bytes.get(data)
        if other is not None:
            return f'OTHER:{other}'
        if expected.startswith(data):
            return 'PARTIAL'
        return 'GARBAGE'


def small_contents() -> Contents:
    """Eight small contents with distinct sizes: compressible ones and incompressible ones, incl. empty."""
    table = {
        'k1': b'A' * 7,
        'k2': b'B' * 40,  # compressible
        'k3': _pseudo_random(23, 3),  # incompressible
        'k4': b'',
        'k5': (b'0123456789' * 30),  # compressible, 300
        'k6': _pseudo_random(150, 6),
        'k7': b'C',
        'k8': _pseudo_random(64, 8) + b'D' * 200,  # mixed
    }
    return Contents(table)


def zlen(data: bytes, level: int) -> int:
    comp = zlib.compressobj(level=level)
    return len(comp.compress(data) + comp.flush())


# ------------------------------------------------------------------------------------------------
# Evidence / verdicts
# ------------------------------------------------------------------------------------------------


class Findings:
    """Known findings (never written at run time)."""

    def __init__(self):
        self.entries = []
        self.fixed = []
        if os.path.exists(KNOWN_FINDINGS):
            with open(KNOWN_FINDINGS, encoding='utf8') as handle:
                data = json.load(handle)
            self.entries = data.get('known', [])
            self.fixed = data.get('fixed', [])

    def match(self, prop: str, signature: dict):
        """Return the known-finding entry whose ``match`` dict is a subset of ``signature`` (and same property)."""
        for entry in self.entries:
            if entry.get('property') != prop:
                continue
            want = entry.get('match', {})
            if all(signature.get(key) == value for key, value in want.items()):
                return entry
        return None


class Report:
    """Collects the outcome of one check run, writes evidence/<id>.json and prints the verdict lines."""

    def __init__(self, prop: str, level: str):
        self.prop = prop
        self.level = level
        self.tier = tier()
        self.seed = seed()
        self.t0 = time.time()
        self.coverage: dict = {'samples': []}
        self.assumptions: list[str] = []
        self.violations: list[dict] = []
        self.known_hits: list[str] = []
        self.notes: list[str] = []
        self.findings = Findings()
        self._distinct: set = set()
        self.evaluations = 0

    # -- counting ----------------------------------------------------------------------------
    def count(self, case_signature=None, n: int = 1) -> None:
        self.evaluations += n
        if case_signature is not None:
            self._distinct.add(case_signature)

    def sample(self, obj, limit: int = 6) -> None:
        if len(self.coverage['samples']) < limit:
            self.coverage['samples'].append(obj)

    def add(self, key: str, value) -> None:
        self.coverage[key] = self.coverage.get(key, 0) + value

    def set(self, key: str, value) -> None:
        self.coverage[key] = value

    def note(self, text: str) -> None:
        if text not in self.notes:
            self.notes.append(text)

    # -- violations --------------------------------------------------------------------------
    def violation(self, signature: dict, replay: dict, text: str) -> None:
        """Record a property violation observed on the real code.

        ``signature`` identifies the failing input/call site (used to match known findings); ``replay``
        is written to /verif/replay and is enough to re-execute the case.
        """
        known = self.findings.match(self.prop, signature)
        if known is not None:
            line = f"KNOWN-FINDING: property={self.prop} {known.get('text', text)}"
            if line not in self.known_hits:
                self.known_hits.append(line)
            return
        if len(self.violations) >= 20:
            self.violations.append({'text': 'more...'})
            return
        os.makedirs(REPLAY, exist_ok=True)
        name = f"{self.prop}-{hashlib.sha1(json.dumps(signature, sort_keys=True, default=str).encode()).hexdigest()[:10]}.json"
        path = os.path.join(REPLAY, name)
        with open(path, 'w', encoding='utf8') as handle:
            json.dump({'property': self.prop, 'text': text, 'signature': signature, 'replay': replay}, handle,
                      indent=1, default=str)
        self.violations.append({'text': text, 'signature': signature, 'replay': path})

    # -- finish ------------------------------------------------------------------------------
    def finish(self) -> int:
        cov = self.coverage
        cov.setdefault('evaluations', self.evaluations)
        cov.setdefault('distinct_nontrivial', len(self._distinct))
        if self.notes:
            cov['notes'] = self.notes
        if self.known_hits:
            cov['known_findings_reproduced'] = self.known_hits
        if not cov['samples']:
            cov['samples'] = ['(no sample recorded)']
        evidence = {
            'property_id': self.prop,
            'tier': self.tier,
            'seed': self.seed,
            'level': self.level,
            'coverage': cov,
            'assumptions': self.assumptions,
            'wall_s': round(time.time() - self.t0, 3),
            'violations': len(self.violations),
        }
        os.makedirs(EVIDENCE, exist_ok=True)
        tmp = os.path.join(EVIDENCE, f'.{self.prop}.json.tmp')
        with open(tmp, 'w', encoding='utf8') as handle:
            json.dump(evidence, handle, indent=1, default=str)
        os.replace(tmp, os.path.join(EVIDENCE, f'{self.prop}.json'))
        for line in self.known_hits:
            print(line)
        printed = set()
        for item in self.violations:
            if 'replay' in item and item['replay'] not in printed:
                printed.add(item['replay'])
                print(f"VIOLATION property={self.prop} replay={item['replay']}")
                print(f"  {item['text'][:3000]}")
        summary = {key: value for key, value in cov.items() if key not in ('samples', 'notes')}
        print(f'[{self.prop}] tier={self.tier} seed={self.seed} wall={evidence["wall_s"]}s '
              f'violations={len(self.violations)} coverage={json.dumps(summary, default=str)[:600]}')
        for note in self.notes[:12]:
            print(f'  note: {note}')
        return 1 if self.violations else 0


# ------------------------------------------------------------------------------------------------
# Parallel map over forked workers (the library is imported once in the parent)
# ------------------------------------------------------------------------------------------------


def pmap(func, items, procs: int | None = None):
    """Apply ``func`` to every item in forked worker processes; returns the list of results (in order)."""
    import multiprocessing as mp  # pylint: disable=import-outside-toplevel

    items = list(items)
    procs = min(procs or int(os.environ.get('VERIF_PROCS', '16')), max(1, len(items)))
    if procs <= 1 or len(items) <= 1:
        return [func(item) for item in items]
    ctx = mp.get_context('fork')
    with ctx.Pool(procs) as pool:
        return pool.map(func, items, chunksize=1)


def chunks(seq, n):
    seq = list(seq)
    size = max(1, (len(seq) + n - 1) // n)
    return [seq[i:i + size] for i in range(0, len(seq), size)]
