"""Design-level model checking of the step-level specification Dos.tla (shared by C04, C05, C06, C17)."""
from __future__ import annotations

from . import common, tlc

NOMINAL = {
    'C04': [('MC_Conc', ['ReadCorrect', 'WriteAcked', 'TypeOK']), ('MC_Conc_pinned', ['ReadCorrect', 'WriteAcked', 'TypeOK']),
            ('MC_Conc_seek', ['ReadCorrect', 'SeekReadCorrect', 'TypeOK'])],
    'C05': [('MC_Crash', ['Recoverable', 'ReadCorrect', 'TypeOK']), ('MC_Crash_nopp', ['Recoverable', 'ReadCorrect', 'TypeOK']),
            ('MC_Maint', ['Recoverable', 'KeysUnique', 'Completed'])],
    'C06': [('MC_Crash', ['DurableVisible', 'AfterPowerLoss', 'TypeOK']), ('MC_Crash_nopp', ['DurableVisible', 'AfterPowerLoss', 'TypeOK']),
            ('MC_Maint', ['DurableVisible', 'Recoverable'])],
    'C17': [('MC_Crash', ['Recoverable', 'ReadCorrect', 'WriteAcked', 'TypeOK']), ('MC_Maint', ['Recoverable', 'KeysUnique', 'Completed'])],
}
# liveness (thorough tier): under weak fairness of each actor every call returns (FairSpec, PROPERTY EveryCallReturns)
LIVENESS = {'C04': [('MC_Conc_live', ['TypeOK']), ('MC_Conc_seek_live', ['TypeOK'])]}
# flipping a switch must make TLC find the violation (the invariants are not vacuous)
DEVIATIONS = {
    'C04': [('MC_Dev_NoFallback', 'ReadCorrect'), ('MC_Dev_UnlinkBeforeCommit', 'Recoverable'), ('MC_Dev_NoRetry', 'SeekReadCorrect')],
    'C05': [('MC_Dev_UnlinkBeforeCommit', 'Recoverable'), ('MC_Dev_CommitBeforeFlush', 'Recoverable'),
            ('MC_MaintDev_UnlinkOldFirst', 'Recoverable'), ('MC_MaintDev_SeekBack', 'Recoverable'),
            ('MC_MaintDev_NoIntermediateCommit', 'Recoverable')],
    'C06': [('MC_Dev_SkipPackFsync', 'DurableVisible'), ('MC_Dev_RenameBeforeFsync', 'DurableVisible'),
            ('MC_MaintDev_CommitBeforeFsync', 'DurableVisible'), ('MC_MaintDev_ImportFsyncOnlyLast', 'DurableVisible')],
    'C17': [('MC_Dev_CommitBeforeFlush', 'Recoverable'), ('MC_MaintDev_UnlinkOldFirst', 'Recoverable')],
}


def _run(job):
    cfg, invariants = job
    import os  # pylint: disable=import-outside-toplevel
    with open(os.path.join(common.SPEC, cfg + '.cfg'), encoding='utf8') as handle:
        lines = [ln for ln in handle.read().splitlines()
                 if not ln.startswith('INVARIANT') or invariants is None or ln.split()[1] in invariants]
    with common.scratch('dz') as work:
        path = os.path.join(work, cfg + '_run.cfg')
        with open(path, 'w', encoding='utf8') as handle:
            handle.write('\n'.join(lines) + '\n')
        res = tlc.run('MC_Maint' if cfg.startswith('MC_Maint') else 'MC_Conc', path, workers=4, timeout=2400)
    return cfg, res.summary(), res.violated, bool(res.error_lines and not res.violated) or res.timeout, res.output[-1500:]


def check(report: common.Report, prop: str):
    jobs = [(cfg, invs) for cfg, invs in NOMINAL[prop]] + [(cfg, None) for cfg, _ in DEVIATIONS[prop]]
    if report.tier == 'thorough':
        jobs += LIVENESS.get(prop, [])
    results = common.pmap(_run, jobs, procs=4)
    expected_dev = dict(DEVIATIONS[prop])
    summary = {}
    for cfg, info, violated, broken, tail in results:
        summary[cfg] = {k: info[k] for k in ('distinct', 'generated', 'violated', 'wall_s')}
        if broken:
            print(f'MACHINERY-FAILURE: TLC failed on {cfg}')
            print(tail)
            raise SystemExit(2)
        if cfg in expected_dev:
            if expected_dev[cfg] not in violated:
                print(f'MACHINERY-FAILURE: deviation {cfg} no longer violates {expected_dev[cfg]}: the design model lost its teeth')
                raise SystemExit(2)
        else:
            report.add('states', info['distinct'])
            report.add('transitions', info['generated'])
            if violated:
                print(f'DESIGN-COUNTEREXAMPLE: {cfg} violates {violated} (statement about the specification Dos.tla)')
                print(tail)
                raise SystemExit(2)
    if prop in ('C04', 'C05', 'C06'):
        from . import proof  # pylint: disable=import-outside-toplevel
        proof.check(report, refinement=report.tier == 'thorough')
    report.set('design_model', {'module': 'Dos.tla + DosMaint.tla', 'configs': summary,
                                'deviations_detected': [f'{c} -> {i}' for c, i in DEVIATIONS[prop]]})
