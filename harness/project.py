"""Projection (abstraction function): read a container folder with sqlite3 + zlib + hashlib + os only.

Never uses the library.  The result is the abstract state the TLA+ specification talks about:
loose files with content tags, index rows with the tag of the byte range they designate, pack
lengths, lock / sandbox / duplicate files.  The same function is applied to live containers, crash
images, power-loss images and backups.
"""
from __future__ import annotations

import hashlib
import json
import os
import sqlite3
import zlib

_HEX = set('0123456789abcdef')


def read_config(folder: str) -> dict:
    with open(os.path.join(folder, 'config.json'), encoding='utf8') as handle:
        return json.load(handle)


def _digest(data: bytes, hash_type: str) -> str:
    return hashlib.new(hash_type, data).hexdigest()


def read_rows(folder: str, immutable: bool = False) -> list[dict]:
    """Committed index rows, read through an independent sqlite3 connection."""
    path = os.path.join(folder, 'packs.idx')
    if not os.path.exists(path):
        return []
    uri = f'file:{path}?mode=ro' + ('&immutable=1' if immutable else '')
    conn = sqlite3.connect(uri, uri=True, timeout=5)
    try:
        try:
            conn.execute('SELECT count(*) FROM db_object').fetchall()
        except sqlite3.OperationalError:
            conn.close()
            conn = sqlite3.connect(path, timeout=5)
        cur = conn.execute('SELECT id, hashkey, pack_id, offset, length, compressed, size FROM db_object ORDER BY id')
        rows = [
            {'id': r[0], 'hashkey': r[1], 'pack_id': r[2], 'offset': r[3], 'length': r[4], 'compressed': bool(r[5]),
             'size': r[6]} for r in cur
        ]
    finally:
        conn.close()
    return rows


def list_loose(folder: str, prefix_len: int) -> dict[str, str]:
    """hashkey -> path for every file in the loose folder (same validity rules as the docs: hex names)."""
    result = {}
    loose = os.path.join(folder, 'loose')
    if not os.path.isdir(loose):
        return result
    for first in sorted(os.listdir(loose)):
        path1 = os.path.join(loose, first)
        if prefix_len:
            if len(first) != prefix_len or not set(first) <= _HEX or not os.path.isdir(path1):
                continue
            for second in sorted(os.listdir(path1)):
                key = first + second
                if set(key) <= _HEX:
                    result[key] = os.path.join(path1, second)
        else:
            if set(first) <= _HEX and os.path.isfile(path1):
                result[first] = path1
    return result


def slice_tag(blob: bytes | None, row: dict, hash_type: str) -> tuple[str, bytes | None]:
    """Tag of the byte range a row designates: whole / outside / badz / badhash / badsize (+ the object bytes)."""
    if blob is None:
        return 'nopack', None
    off, length = row['offset'], row['length']
    if off < 0 or length < 0 or off + length > len(blob):
        return 'outside', None
    raw = blob[off:off + length]
    if row['compressed']:
        try:
            dec = zlib.decompressobj()
            data = dec.decompress(raw)
            if not dec.eof or dec.unused_data:
                return 'badz', None
        except zlib.error:
            return 'badz', None
    else:
        data = raw
    if _digest(data, hash_type) != row['hashkey']:
        return 'badhash', data
    if len(data) != row['size']:
        return 'badsize', data
    if not row['compressed'] and row['size'] != row['length']:
        return 'badsize', data
    return 'whole', data


def project(folder: str, with_bytes: bool = False) -> dict:
    """Full raw projection of a container folder."""
    cfg = read_config(folder)
    hash_type = cfg['hash_type']
    prefix_len = cfg['loose_prefix_len']
    state: dict = {'config': cfg}

    loose = {}
    loose_bytes = {}
    for key, path in list_loose(folder, prefix_len).items():
        try:
            with open(path, 'rb') as handle:
                data = handle.read()
        except FileNotFoundError:
            continue
        loose[key] = {'tag': 'good' if _digest(data, hash_type) == key else 'bad', 'size': len(data)}
        loose_bytes[key] = data
    state['loose'] = loose

    packs = {}
    blobs: dict[int, bytes] = {}
    locks = []
    other_pack_files = []
    packdir = os.path.join(folder, 'packs')
    for name in sorted(os.listdir(packdir)) if os.path.isdir(packdir) else []:
        path = os.path.join(packdir, name)
        if name.endswith('.lock'):
            locks.append(name[:-5])
        elif name.lstrip('-').isdigit():
            with open(path, 'rb') as handle:
                blobs[int(name)] = handle.read()
            packs[int(name)] = {'len': len(blobs[int(name)]), 'sha': hashlib.sha1(blobs[int(name)]).hexdigest()}
        else:
            other_pack_files.append(name)
    state['packs'] = packs
    state['locks'] = locks
    state['other_pack_files'] = other_pack_files

    rows = read_rows(folder)
    objects = {}
    for row in rows:
        tag, data = slice_tag(blobs.get(row['pack_id']), row, hash_type)
        row['tag'] = tag
        if with_bytes:
            objects[row['hashkey']] = data
    state['rows'] = rows

    for sub in ('sandbox', 'duplicates'):
        path = os.path.join(folder, sub)
        state[sub] = sorted(os.listdir(path)) if os.path.isdir(path) else []
    if with_bytes:
        state['_blobs'] = blobs
        state['_loose_bytes'] = loose_bytes
        state['_packed_bytes'] = objects
    return state


def raw_read(state: dict, hashkey: str) -> bytes | None:
    """What the documented manual recovery recipe yields for ``hashkey`` (needs project(..., with_bytes=True)).

    Index first (as the library does), then the loose file.  Returns None when nothing designates the key.
    """
    for row in state['rows']:
        if row['hashkey'] == hashkey:
            return state['_packed_bytes'].get(hashkey)
    if hashkey in state['_loose_bytes']:
        return state['_loose_bytes'][hashkey]
    return None


def index_ok_issues(state: dict) -> list[str]:
    """Python twin of the TLA+ predicate IndexOK (used for replay messages only; TLC takes the verdict)."""
    issues = []
    seen = set()
    by_pack: dict[int, list] = {}
    for row in state['rows']:
        if row['hashkey'] in seen:
            issues.append(f"key indexed twice: {row['hashkey'][:8]}")
        seen.add(row['hashkey'])
        if row['tag'] != 'whole':
            issues.append(f"row {row['hashkey'][:8]} pack {row['pack_id']} off {row['offset']} len {row['length']}: {row['tag']}")
        by_pack.setdefault(row['pack_id'], []).append(row)
    for pack_id, rows in by_pack.items():
        rows.sort(key=lambda r: (r['offset'], r['length']))
        for first, second in zip(rows, rows[1:]):
            if first['offset'] + first['length'] > second['offset']:
                issues.append(f'overlap in pack {pack_id} at {second["offset"]}')
    for key, info in state['loose'].items():
        if info['tag'] != 'good':
            issues.append(f'loose file {key[:8]} does not hash to its name')
    return issues
