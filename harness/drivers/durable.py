"""C06, second decision procedure: the L0 event monitor DurTrace.tla.

Each scenario runs once under the shim with a recording handler; the observed calls are abstracted to
write/trunc/fsync/bind/unbind/rows events over small file ids (one per inode) and TLC replays them through the L0
state machine, evaluating "visible => durable" after every event.  No image of the folder is involved: the verdict
follows from the order of the calls alone.
"""
from __future__ import annotations

import errno
import hashlib
import json
import os
import re

from .. import common, project, scenarios, shim, tlc


class Recorder(shim.Handler):
    def __init__(self, folder, contents):
        super().__init__()
        self.folder = folder
        self.contents = contents
        self.fid = {}
        self.lines = []
        self.bound = {}  # name -> fid
        self.last_rows = None
        self.busy = False

    def file_id(self, ino):
        return self.fid.setdefault(ino, len(self.fid) + 1)

    def name_of(self, rel):
        obj = shim.SHIM.roots[0].obj(rel) if shim.SHIM.roots else ''
        if obj.startswith('loose:') or obj.startswith('pack:'):
            return obj
        return None

    def scan_initial(self):
        files, names = [], []
        for dirpath, _dirs, fnames in os.walk(self.folder):
            for fname in fnames:
                path = os.path.join(dirpath, fname)
                rel = os.path.relpath(path, self.folder)
                st = os.stat(path)
                name = self.name_of(rel)
                if name is None:
                    continue
                fid = self.file_id(st.st_ino)
                files.append({'f': fid, 'len': st.st_size})
                names.append({'name': name, 'f': fid})
                self.bound[name] = fid
        return files, names

    def rows_now(self):
        rows = project.read_rows(self.folder)
        name_of = self.contents.name_of_key
        return [{'k': name_of(r['hashkey']), 'pack': f"pack:{r['pack_id']}", 'off': r['offset'], 'len': r['length']} for r in rows]

    def check_rows(self):
        rows = self.rows_now()
        if rows != self.last_rows:
            self.last_rows = rows
            self.lines.append({'e': 'rows', 'rows': rows})

    def rebind(self, rel):
        name = self.name_of(rel)
        if name is None:
            return
        path = os.path.join(self.folder, rel)
        try:
            fid = self.file_id(os.stat(path).st_ino)
        except OSError:
            if name in self.bound:
                del self.bound[name]
                self.lines.append({'e': 'unbind', 'name': name})
            return
        if self.bound.get(name) != fid:
            self.bound[name] = fid
            self.lines.append({'e': 'bind', 'name': name, 'f': fid})

    def pre(self, ev):
        if self.busy or ev.get('quiet'):
            return
        self.busy = True
        shim.SHIM.enabled = False
        try:
            self.check_rows()  # a COMMIT issued earlier has taken effect by now
        finally:
            shim.SHIM.enabled = True
            self.busy = False

    def post(self, ev):
        if self.busy or ev.get('quiet') or ev.get('res') not in ('ok',):
            return
        self.busy = True
        shim.SHIM.enabled = False
        try:
            op = ev['op']
            path = os.path.join(self.folder, ev['rel'])
            if op == 'write':
                try:
                    fid = self.file_id(os.stat(path).st_ino)
                    self.lines.append({'e': 'write', 'f': fid, 'end': ev.get('end', 0)})
                except OSError:
                    pass
            elif op == 'truncate':
                try:
                    self.lines.append({'e': 'trunc', 'f': self.file_id(os.stat(path).st_ino), 'to': ev.get('to', 0)})
                except OSError:
                    pass
            elif op == 'fsync' and 'ino' in ev and not ev['obj'].startswith('dir:'):
                self.lines.append({'e': 'fsync', 'f': self.file_id(ev['ino'])})
            elif op == 'open' and any(c in ev.get('mode', '') for c in 'wxa'):
                self.rebind(ev['rel'])
            elif op in ('rename', 'replace', 'link'):
                if ev.get('srcrel'):
                    self.rebind(ev['srcrel'])
                self.rebind(ev['rel'])
            elif op == 'unlink':
                self.rebind(ev['rel'])
        finally:
            shim.SHIM.enabled = True
            self.busy = False


class FaultRecorder(Recorder):
    """The recorder, with the k-th fsync of a regular file failing with EIO (the failed call is not an fsync event: it made
    nothing durable).  Whatever the operation goes on to do is replayed through L0 like any other trace."""

    def __init__(self, folder, contents, target):
        super().__init__(folder, contents)
        self.target = target
        self.count = 0
        self.fired = False

    def pre(self, ev):
        super().pre(ev)
        if self.busy or ev.get('quiet') or ev['op'] != 'fsync' or ev['obj'].startswith('dir:'):
            return
        self.count += 1
        if self.count == self.target:
            self.fired = True
            raise OSError(errno.EIO, f"injected I/O error at fsync {ev['obj']}")


def run_scenario(job):
    index, thorough, fault_k = (tuple(job) + (0,))[:3]
    common.import_lib()
    from disk_objectstore import Container  # pylint: disable=import-outside-toplevel

    scenario = scenarios.all_scenarios(thorough)[index]
    contents = scenarios.table()
    sh = shim.install()
    with common.scratch('du') as work:
        folder = os.path.join(work, 'c')
        scenario.build(folder, contents)
        sh.clear()
        sh.add_root(folder, 'c', 2, contents)
        recorder = FaultRecorder(folder, contents, fault_k) if fault_k else Recorder(folder, contents)
        files, names = recorder.scan_initial()
        rows0 = recorder.rows_now()
        recorder.last_rows = rows0
        sh.handler = recorder
        cont = Container(folder)
        sh.enabled = True
        try:
            scenario.op(cont, contents)
        except Exception:  # noqa pylint: disable=broad-except
            pass
        finally:
            sh.enabled = False
        cont.close()
        recorder.check_rows()
        sh.clear()
    must = [k for k in scenario.acked() if k not in scenario.deletes and k not in scenario.damaged]
    loosenames = sorted({f'loose:{k}' for k in scenarios.UNIVERSE})
    for line in recorder.lines:
        for field, default in (('f', 0), ('end', 0), ('to', 0), ('name', ''), ('rows', [])):
            line.setdefault(field, default)
    n_fsync = sum(1 for line in recorder.lines if line['e'] == 'fsync')
    name = scenario.name + (f'#fsync{fault_k}-fails' if fault_k else '')
    return {'scenario': name, 'index': index, 'n_fsync': n_fsync, 'fired': bool(getattr(recorder, 'fired', False)), 'files': files, 'names': names, 'rows': rows0, 'lines': recorder.lines,
            'must': [{'k': k, 'loosename': f'loose:{k}'} for k in must], 'loosenames': loosenames}


INVARIANTS = ['C06_LoosePublishedDurable', 'C06_RowsOverDurableBytes', 'C06_AckedStaysDurable']


def check(report: common.Report):
    thorough = report.tier == 'thorough'
    all_sc = scenarios.all_scenarios(thorough)
    traces = common.pmap(run_scenario, [(i, thorough, 0) for i in range(len(all_sc)) if all_sc[i].default_sync])
    # the same operations with one fsync of a data file failing: a failed fsync makes nothing durable, so nothing that relies on
    # it may be published afterwards (fault + power loss, the combination neither C06's images nor C17's faults reach alone)
    faulted = common.pmap(run_scenario, [(t['index'], thorough, k) for t in traces for k in range(1, t['n_fsync'] + 1)])
    faulted = [t for t in faulted if t['fired']]
    traces = traces + faulted
    with common.scratch('dum') as work:
        trace_file = os.path.join(work, 'dur.ndjson')
        with open(trace_file, 'w', encoding='utf8') as handle:
            for trace in traces:
                handle.write(json.dumps(trace) + '\n')
        cfg = os.path.join(work, 'DurTrace.cfg')
        with open(cfg, 'w', encoding='utf8') as handle:
            handle.write('SPECIFICATION Spec\n' + ''.join(f'INVARIANT {inv}\n' for inv in INVARIANTS) + 'CHECK_DEADLOCK FALSE\n')
        res = tlc.run('DurTrace', cfg, workers=1, timeout=1500, args=['-continue'], env={'TRACE_FILE': trace_file})
    hits = []
    for chunk in re.split(r'(?=Error: Invariant \w+ is violated)', res.output):
        m = re.match(r'Error: Invariant (\w+) is violated', chunk)
        tids = re.findall(r'/\\ tid = (\d+)', chunk)
        ls = re.findall(r'/\\ l = (\d+)', chunk)
        if m and tids and ls:
            hits.append((m.group(1), int(tids[-1]), int(ls[-1])))
    expected = sum(len(t['lines']) + 1 for t in traces)
    if res.timeout or (res.error_lines and not hits) or res.distinct != expected:
        print(f'monitor states {res.distinct} expected {expected}')
        tlc.machinery_failure(res, 'DurTrace monitor')
    seen = set()
    for inv, tid, line_no in hits:
        trace = traces[tid - 1]
        key = (inv, trace['scenario'])
        if key in seen:
            continue
        seen.add(key)
        context = trace['lines'][max(0, line_no - 6):line_no]
        report.violation({'invariant': inv, 'scenario': trace['scenario'].split(':')[0], 'driver': 'durable'},
                         {'driver': 'durable', 'scenario': trace['scenario'], 'line': line_no},
                         f"{inv}: scenario {trace['scenario']} after event {line_no}: last events "
                         f"{json.dumps([{k: v for k, v in e.items() if v not in (0, '', [])} for e in context])[:900]}")
    report.add('states', res.distinct)
    report.add('transitions', res.generated)
    report.set('event_traces', len(traces))
    report.set('event_traces_with_a_failing_fsync', len(faulted))
    report.set('events_replayed_through_L0', expected - len(traces))
    report.set('event_monitor', res.summary())
    return traces
