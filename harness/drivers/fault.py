"""C17 - an I/O error in the middle of an operation leaves the store intact.

For every scenario (scenarios.py) the operation is first run once to enumerate its I/O-relevant calls (open, raw
write, truncate, fsync, rename/replace/link/unlink/mkdir, every SQL statement and COMMIT).  Then, for each such call
k, the scenario is rebuilt and the operation is run with call k raising ``OSError(EIO)`` (file system) or
``sqlalchemy.exc.OperationalError`` (SQL) while every other call succeeds.  Recorded per fault point: whether the
operation raised, the raw projection and what a fresh handle reads afterwards, and the outcome of rerunning the
operation through a new handle (after removing stale lock files).  TLC evaluates the C17 predicates of
CrashTrace.tla on every line.
"""
from __future__ import annotations

import errno
import hashlib
import json
import os
import re
import shutil

from .. import common, scenarios, shim, tlc
from . import crash

FAULT_OPS = ('open', 'write', 'truncate', 'fsync', 'rename', 'replace', 'link', 'unlink', 'mkdir', 'sql')


def is_candidate(ev):
    if ev['op'] not in FAULT_OPS or ev.get('quiet'):
        return False
    if ev['op'] == 'sql' and ev.get('kind') in ('BEGIN', 'PRAGMA'):
        return False
    if ev['obj'] == 'config':
        return False
    return True


class Counter(shim.Handler):
    def __init__(self):
        super().__init__()
        self.candidates = []

    def pre(self, ev):
        if is_candidate(ev):
            self.candidates.append({k: ev[k] for k in ('op', 'obj', 'kind', 'mode') if k in ev})


class Injector(shim.Handler):
    def __init__(self, target, flavour='eio'):
        super().__init__()
        self.flavour = flavour
        self.target = target
        self.count = 0
        self.fired = None

    def pre(self, ev):
        if not is_candidate(ev):
            return
        self.count += 1
        if self.count == self.target and self.fired is None:
            self.fired = {k: ev[k] for k in ('op', 'obj', 'kind', 'mode') if k in ev}
            if ev['op'] == 'sql':
                from sqlalchemy.exc import OperationalError  # pylint: disable=import-outside-toplevel
                raise OperationalError('injected', None, Exception('disk I/O error (injected)'))
            if self.flavour == 'eacces':
                raise PermissionError(errno.EACCES, f"injected permission error at {ev['op']} {ev['obj']}")
            raise OSError(errno.EIO, f"injected I/O error at {ev['op']} {ev['obj']}")


def _run_op(scenario, folder, contents, handler):
    from disk_objectstore import Container  # pylint: disable=import-outside-toplevel

    sh = shim.SHIM
    sh.clear()
    sh.add_root(folder, 'c', 2, contents)
    sh.handler = handler
    cont = Container(folder)
    raised = ''
    sh.enabled = True
    try:
        scenario.op(cont, contents)
    except Exception as exc:  # noqa pylint: disable=broad-except
        raised = type(exc).__name__
    finally:
        sh.enabled = False
    try:
        cont.close()
    except Exception:  # noqa pylint: disable=broad-except
        pass
    sh.clear()
    return raised


def run_scenario(job):
    scenario_index, thorough = job
    common.import_lib()
    from disk_objectstore import Container  # pylint: disable=import-outside-toplevel

    scenario = scenarios.all_scenarios(thorough)[scenario_index]
    contents = scenarios.table()
    key_of = {name: hashlib.sha256(contents[name]).hexdigest() for name in scenarios.UNIVERSE}
    shim.install()
    lines = []
    with common.scratch('fl') as work:
        base = os.path.join(work, 'base', 'c')
        os.makedirs(os.path.dirname(base))
        scenario.build(base, contents)
        # enumeration run
        run0 = os.path.join(work, 'run0')
        shutil.copytree(os.path.dirname(base), run0)
        counter = Counter()
        clean_raised = _run_op(scenario, os.path.join(run0, 'c'), contents, counter)
        shutil.rmtree(run0)
        n_candidates = len(counter.candidates)
        plan = [(k, 'eio') for k in range(1, n_candidates + 1)]
        # a second flavour for the calls around which the library has PermissionError handlers (locked / unreadable files)
        plan += [(k, 'eacces') for k in range(1, n_candidates + 1)
                 if counter.candidates[k - 1]['op'] in ('open', 'unlink', 'rename', 'replace')
                 and counter.candidates[k - 1]['obj'].startswith(('loose:', 'dup:'))]
        # pack_all_loose treats a PermissionError anywhere in the copy of one loose object (opening it, reading it, appending
        # it to the pack) as 'this file is locked, skip it': the same flavour at the writes into the pack while packing
        if scenario.kind == 'pack':
            plan += [(k, 'eacces') for k in range(1, n_candidates + 1)
                     if counter.candidates[k - 1]['op'] == 'write' and counter.candidates[k - 1]['obj'].startswith('pack:')]
        for k, flavour in plan:
            run = os.path.join(work, f'run{k}{flavour}')
            shutil.copytree(os.path.dirname(base), run)
            folder = os.path.join(run, 'c')
            injector = Injector(k, flavour)
            raised = _run_op(scenario, folder, contents, injector)
            obs, views = crash.examine(folder, contents, key_of)
            # rerun through a new handle once the fault has cleared
            rerun = {'raised': '', 'present': [], 'allok': True, 'skipped': False}
            if scenario.repack and raised:
                # an interrupted repack needs a manual repair: running it again may refuse, but must not make things worse
                rerun['skipped'] = True
                again = Container(folder)
                try:
                    scenario.op(again, contents)
                except Exception as exc:  # noqa pylint: disable=broad-except
                    rerun['raised'] = type(exc).__name__
                finally:
                    again.close()
                obs_after, views_after = crash.examine(folder, contents, key_of)
                lines.append({'point': k, 'kind': 'fault', 'flavour': flavour, 'ev': {**(injector.fired or {}), 'then': 'rerun'},
                              'raised': True, 'exc': raised, 'obs': obs_after, 'views': views_after, 'rerun': dict(rerun)})
            else:
                packdir = os.path.join(folder, 'packs')
                for name in os.listdir(packdir):
                    if name.endswith('.lock'):
                        os.remove(os.path.join(packdir, name))
                cont = Container(folder)
                try:
                    scenario.op(cont, contents)
                except Exception as exc:  # noqa pylint: disable=broad-except
                    rerun['raised'] = f'{type(exc).__name__}'
                finally:
                    cont.close()
                _obs2, views2 = crash.examine(folder, contents, key_of)
                rerun['present'] = [v['k'] for v in views2 if v['has'] and v['cls'] == 'OK']
                rerun['allok'] = all(v['cls'] in ('OK', 'NotExistent') for v in views2)
            lines.append({'point': k, 'kind': 'fault', 'flavour': flavour, 'ev': injector.fired or counter.candidates[k - 1], 'raised': bool(raised),
                          'exc': raised, 'obs': obs, 'views': views, 'rerun': rerun})
            shutil.rmtree(run)
    return {'scenario': scenario.name, 'index': scenario_index, 'acked': scenario.acked(), 'adds': scenario.adds,
            'deletes': scenario.deletes, 'repack': scenario.repack, 'damaged': scenario.damaged, 'lines': lines,
            'error': clean_raised, 'n_events': n_candidates}


INVARIANTS = ['C17_CompletesOrRaises', 'C17_StoreIntact', 'C17_ReadsSafe', 'C17_RerunOK']


def check_C17(report: common.Report):
    common.import_lib()
    from .. import design  # pylint: disable=import-outside-toplevel
    design.check(report, 'C17')
    thorough = report.tier == 'thorough'
    all_sc = scenarios.all_scenarios(thorough)
    traces = common.pmap(run_scenario, [(i, thorough) for i in range(len(all_sc))])
    traces = [t for t in traces if t['lines']]
    with common.scratch('mon') as workdir:
        res, hits = crash.monitor(traces, INVARIANTS, workdir)
    expected = sum(len(t['lines']) for t in traces)
    if res.timeout or (res.error_lines and not hits) or res.distinct != expected:
        print(f'monitor states {res.distinct} expected {expected}')
        tlc.machinery_failure(res, 'CrashTrace monitor (fault lines)')
    seen = set()
    for inv, tid, line_no in hits:
        trace = traces[tid - 1]
        line = trace['lines'][line_no - 1]
        ev = line['ev']
        key = (inv, trace['scenario'], ev.get('op'), re.sub(r'\d+$', '', ev.get('obj', '')), ev.get('kind'))
        if key in seen:
            continue
        seen.add(key)
        sig = {'invariant': inv, 'scenario': trace['scenario'].split(':')[0], 'event': ev.get('op'),
               'obj': re.sub(r'\d+$', '', ev.get('obj', '')), 'sqlkind': ev.get('kind', ''), 'flavour': line['flavour']}
        bad_views = [v for v in line['views'] if v['cls'] not in ('OK', 'NotExistent')]
        report.violation(sig, {'driver': 'fault', 'scenario': trace['scenario'], 'point': line['point'], 'invariant': inv},
                         f"{inv}: scenario {trace['scenario']}, call #{line['point']} {ev} failed with {line['flavour']}; "
                         f"operation raised={line['exc'] or 'nothing'}; rerun={line['rerun']}; "
                         f"obs={json.dumps(line['obs'])[:500]} bad_views={bad_views}")
    raised = sum(1 for t in traces for ln in t['lines'] if ln['raised'])
    report.set('evaluations', expected)
    report.set('distinct_nontrivial', expected)
    report.set('fault_points', expected)
    report.set('faulted_calls_that_raised', raised)
    report.set('faulted_calls_absorbed', expected - raised)
    report.set('scenarios', [t['scenario'] for t in traces])
    report.set('traces_validated_against_impl', len(traces))
    report.add('states', res.distinct)
    report.add('transitions', res.generated)
    report.set('monitor', res.summary())
    report.set('exhaustive', True)
    report.set('rule', 'for each scenario, every I/O-relevant call (open, raw write, truncate, fsync, rename/replace/link/'
                       'unlink/mkdir, SQL statement, COMMIT) fails once with EIO / OperationalError while all others succeed')
    kinds = {}
    for t in traces:
        for ln in t['lines']:
            name = ln['ev'].get('op') + (':' + ln['ev']['kind'] if ln['ev'].get('kind') else '')
            kinds[name] = kinds.get(name, 0) + 1
    report.set('faulted_call_kinds', kinds)
    report.sample({'scenario': traces[0]['scenario'], 'line': {k: v for k, v in traces[0]['lines'][2].items() if k != 'views'}})
    from . import maintconf  # pylint: disable=import-outside-toplevel
    maintconf.check(report)


def replay(data) -> int:
    common.import_lib()
    rep = data['replay']
    names = [s.name for s in scenarios.all_scenarios(True)]
    trace = run_scenario((names.index(rep['scenario']), True))
    with common.scratch('mon') as workdir:
        _res, hits = crash.monitor([trace], INVARIANTS, workdir)
    print('replay: violated', sorted({h[0] for h in hits}) or 'nothing')
    return 1 if hits else 0
