"""C18 - bounded resources: descriptors, one open data file, lazily opened inputs, chunked I/O (peak memory).

Descriptor census after every call of every history: SeqTrace invariants C18_NoFdLeak / C18_ClosedNoFds.  The other
measurements are recorded as lines and judged by TLC (ResTrace.tla).  Peak memory is not something TLA+ can derive:
the harness measures ``tracemalloc`` peaks and the specification only states the size-independent bound.
"""
from __future__ import annotations

import hashlib
import io
import json
import os
import re
import tracemalloc

from .. import common, tlc
from . import seq


def data_fds(folder):
    return seq.fd_census(folder, include_index=False)


def all_fds(folder):
    return seq.fd_census(folder, include_index=True)


def bulk_read_lines(work):
    from disk_objectstore import Container  # pylint: disable=import-outside-toplevel
    lines = []
    folder = os.path.join(work, 'b')
    cont = Container(folder)
    cont.init_container(pack_size_target=200, loose_prefix_len=2)
    blobs = [b'object-%03d-' % i + bytes([i]) * (i % 50) for i in range(40)]
    keys = cont.add_objects_to_pack(blobs[:12], compress=False) + cont.add_objects_to_pack(blobs[12:24], compress=True)
    keys += [cont.add_object(b) for b in blobs[24:]]
    for label, req in (('all', keys), ('packed', keys[:24]), ('loose', keys[24:]), ('mixed+missing', keys[::3] + ['0' * 64])):
        for skip in (True, False):
            maxopen = 0
            with cont.get_objects_stream_and_meta(req, skip_if_missing=skip) as triplets:
                for _key, stream, _meta in triplets:
                    if stream is not None:
                        stream.read(5)
                        maxopen = max(maxopen, data_fds(folder))
                        stream.read()
            lines.append({'kind': 'bulkread', 'label': f'{label}-skip{int(skip)}', 'maxopen': maxopen, 'after': data_fds(folder)})
        cont.get_objects_content(req)
        lines.append({'kind': 'bulkread', 'label': f'{label}-content', 'maxopen': 0, 'after': data_fds(folder)})
        list(cont.get_objects_meta(req))
        lines.append({'kind': 'bulkread', 'label': f'{label}-meta', 'maxopen': 0, 'after': data_fds(folder)})
    cont.close()
    return lines


def lazy_lines(work):
    from pathlib import Path  # pylint: disable=import-outside-toplevel
    from disk_objectstore import Container  # pylint: disable=import-outside-toplevel
    from disk_objectstore.utils import LazyOpener  # pylint: disable=import-outside-toplevel

    lines = []
    indir = os.path.join(work, 'inputs')
    os.makedirs(indir)
    paths = []
    for i in range(25):
        path = os.path.join(indir, f'f{i}')
        with open(path, 'wb') as handle:
            handle.write(b'input-%d-' % i * (i + 1))
        paths.append(path)

    def inputs_open():
        count = 0
        for name in os.listdir('/proc/self/fd'):
            try:
                if os.readlink(f'/proc/self/fd/{name}').startswith(indir):
                    count += 1
            except OSError:
                pass
        return count

    stats = {'max': 0, 'opened': 0}

    class CountingOpener(LazyOpener):
        def __enter__(self):
            handle = super().__enter__()
            stats['opened'] += 1
            stats['max'] = max(stats['max'], inputs_open())
            return handle

    for no_holes, twice in ((False, True), (True, True), (True, False)):
        for compress in (False, True):
            stats.update(max=0, opened=0)
            folder = os.path.join(work, f'lz{int(no_holes)}{int(twice)}{int(compress)}')
            cont = Container(folder)
            cont.init_container(pack_size_target=300)
            cont.add_streamed_objects_to_pack([CountingOpener(Path(p)) for p in paths], open_streams=True, compress=compress,
                                              no_holes=no_holes, no_holes_read_twice=twice)
            lines.append({'kind': 'lazy', 'label': f'nh{int(no_holes)}-tw{int(twice)}-z{int(compress)}', 'maxopen': stats['max'],
                          'after': inputs_open(), 'opened': stats['opened'], 'inputs': len(paths)})
            cont.close()
    return lines


def growth_lines(work):
    from disk_objectstore import CompressMode, Container  # pylint: disable=import-outside-toplevel
    lines = []
    folder = os.path.join(work, 'g')
    cont = Container(folder)
    cont.init_container(pack_size_target=150)
    first = None
    for round_no in range(25):
        cont.add_objects_to_pack([b'round-%d-a' % round_no * 5, b'round-%d-b' % round_no * 9], compress=round_no % 2 == 0)
        cont.add_object(b'loose-%d' % round_no * 7)
        cont.pack_all_loose(compress=CompressMode.AUTO, clean_loose_per_pack=round_no % 3 == 0)
        if round_no % 5 == 4:
            cont.clean_storage()
            cont.repack()
            cont.validate()
        idx = all_fds(folder) - data_fds(folder)
        first = idx if first is None else first
        lines.append({'kind': 'growth', 'label': f'round{round_no}', 'during': data_fds(folder), 'idxfds': idx,
                      'idxfds_first': max(first, 6), 'closed': 0})
    cont.close()
    lines.append({'kind': 'growth', 'label': 'after-close', 'during': 0, 'idxfds': 0, 'idxfds_first': 6, 'closed': all_fds(folder)})
    return lines


def _payload(size, kind):
    if kind == 'zeros':
        return b'\\x00' * size
    block = common._pseudo_random(1 << 16, 5)  # pylint: disable=protected-access
    reps = size // len(block) + 1
    if kind == 'random':
        out = bytearray()
        for i in range(reps):
            out += hashlib.sha256(b'%d' % i).digest() + block[32:]
        return bytes(out[:size])
    return (b'compressible text line 0123456789\\n' * (size // 34 + 1))[:size]


class _Stream(io.RawIOBase):
    """A stream that produces ``size`` bytes without holding them (so the input does not count as memory)."""

    def __init__(self, size, kind):
        super().__init__()
        self.left = size
        self.kind = kind
        self.block = _payload(1 << 16, kind)
        self.mode = 'rb'

    def readable(self):
        return True

    def read(self, n=-1):
        if n is None or n < 0:
            n = self.left
        n = min(n, self.left)
        self.left -= n
        reps = n // len(self.block) + 1
        return (self.block * reps)[:n]


def _measure(func):
    tracemalloc.start()
    tracemalloc.reset_peak()
    try:
        func()
        return tracemalloc.get_traced_memory()[1] // 1024
    finally:
        tracemalloc.stop()


def mem_job(job):
    size_mib, kind = job
    common.import_lib()
    from disk_objectstore import CompressMode, Container  # pylint: disable=import-outside-toplevel
    out = {}
    size = size_mib << 20
    with common.scratch('mem') as work:
        cont = Container(os.path.join(work, 'c'))
        cont.init_container(pack_size_target=4 << 30)
        key_holder = {}
        out['add_streamed'] = _measure(lambda: key_holder.update(k=cont.add_streamed_object(_Stream(size, kind))))
        key = key_holder['k']

        def chunked(k):
            with cont.get_object_stream(k) as stream:
                while stream.read(65536):
                    pass
        out['read_loose_chunked'] = _measure(lambda: chunked(key))
        out['pack_yes'] = _measure(lambda: cont.pack_all_loose(compress=CompressMode.YES))
        out['validate_z'] = _measure(cont.validate)
        out['read_packedz_chunked'] = _measure(lambda: chunked(key))
        def seeking(k):
            with cont.get_object_stream(k) as stream:
                stream.seek(-4096, 2)
                stream.read()
                stream.seek(-10, 1)
                stream.read(5)
        cont.clean_storage()  # no loose copy left: the seeking read has to re-loosen the object
        out['seek_read_packedz'] = _measure(lambda: seeking(key))
        cont.clean_storage()
        out['repack_no'] = _measure(lambda: cont.repack(compress_mode=CompressMode.NO))
        out['read_packed_chunked'] = _measure(lambda: chunked(key))
        # the copy branch of repack (source and destination compression are the same)
        out['repack_keep_plain'] = _measure(lambda: cont.repack(compress_mode=CompressMode.KEEP))
        out['repack_yes'] = _measure(lambda: cont.repack(compress_mode=CompressMode.YES))
        out['repack_keep_z'] = _measure(lambda: cont.repack(compress_mode=CompressMode.KEEP))
        cont.clean_storage()
        dest = Container(os.path.join(work, 'd'))
        dest.init_container(hash_type='sha1')
        out['import_stream'] = _measure(lambda: dest.import_objects([key], cont, target_memory_bytes=1 << 20))
        out['add_streamed_to_pack_z'] = _measure(lambda: dest.add_streamed_object_to_pack(_Stream(size, kind), compress=True))
        out['add_streamed_to_pack_nh'] = _measure(
            lambda: dest.add_streamed_object_to_pack(_SeekStream(size, kind), compress=False, no_holes=True, no_holes_read_twice=True))
        out['validate_dest'] = _measure(dest.validate)
        dest.close()
        cont.close()
    return size_mib, kind, out


class _SeekStream(_Stream):
    def __init__(self, size, kind):
        super().__init__(size, kind)
        self.total = size

    def seekable(self):
        return True

    def seek(self, pos, whence=0):
        assert pos == 0 and whence == 0
        self.left = self.total
        return 0

    def tell(self):
        return self.total - self.left


def check_C18(report: common.Report):
    common.import_lib()
    thorough = report.tier == 'thorough'
    n, length = (200, 12) if not thorough else (3000, 25)
    seq.run_histories(report, 'C18', n, length, ['C18'], sim=(40 if not thorough else 400, 12), conform=False)
    lines = []
    with common.scratch('res') as work:
        lines += bulk_read_lines(work)
        lines += lazy_lines(work)
        lines += growth_lines(work)
    sizes = [1, 16] + ([64] if thorough else [])
    kinds = ['zeros', 'text', 'random']
    results = common.pmap(mem_job, [(s, k) for s in sizes for k in kinds], procs=6)
    small = {(kind, path): peak for size, kind, out in results if size == 1 for path, peak in out.items()}
    for size, kind, out in results:
        for path, peak in out.items():
            lines.append({'kind': 'mem', 'label': f'{path}-{kind}', 'size': size * 1024, 'peak': peak, 'peak_small': small[(kind, path)]})
    for line in lines:
        for field in ('maxopen', 'after', 'opened', 'inputs', 'during', 'idxfds', 'idxfds_first', 'closed', 'peak', 'peak_small', 'size'):
            line.setdefault(field, 0)
    with common.scratch('resm') as work:
        trace_file = os.path.join(work, 'res.ndjson')
        with open(trace_file, 'w', encoding='utf8') as handle:
            for line in lines:
                handle.write(json.dumps(line) + '\n')
        cfg = os.path.join(work, 'ResTrace.cfg')
        with open(cfg, 'w', encoding='utf8') as handle:
            handle.write('SPECIFICATION Spec\nINVARIANT C18_OneDataFileOpen\nINVARIANT C18_LazyOpenOnlyWhileConsumed\n'
                         'INVARIANT C18_NoAccumulation\nINVARIANT C18_ChunkedMemory\nCHECK_DEADLOCK FALSE\n')
        res = tlc.run('ResTrace', cfg, workers=1, timeout=600, args=['-continue'], env={'TRACE_FILE': trace_file})
    hits = []
    for chunk in re.split(r'(?=Error: Invariant \w+ is violated)', res.output):
        m = re.match(r'Error: Invariant (\w+) is violated', chunk)
        ls = re.findall(r'(?m)^l = (\d+)\s*$', chunk)   # anchored: the final statistics contain "val = 9.2E-15"
        if m and ls:
            hits.append((m.group(1), int(ls[-1])))
    if res.timeout or (res.error_lines and not hits) or res.distinct != len(lines):
        print(f'monitor states {res.distinct} expected {len(lines)}')
        tlc.machinery_failure(res, 'ResTrace monitor')
    for inv, line_no in hits:
        line = lines[line_no - 1]
        report.violation({'invariant': inv, 'label': line['label'].rsplit('-', 1)[0]}, {'driver': 'resources', 'line': line},
                         f'{inv}: {line}')
    report.add('evaluations', len(lines))
    report.add('states', res.distinct)
    report.add('transitions', res.generated)
    report.add('traces_validated_against_impl', len(lines))
    report.set('resource_lines', len(lines))
    report.set('memory_peaks_kib', {f'{s}MiB-{k}': out for s, k, out in results})
    report.set('resource_monitor', res.summary())
    report.sample({'resource_line': lines[0]})
    report.sample({'mem_line': [l for l in lines if l['kind'] == 'mem'][-1]})
    report.assumptions.append('peak memory is measured with tracemalloc (Python allocations); the specification states the bound, '
                              'it does not derive it')


def replay(data) -> int:
    print('replay: measurements are deterministic up to allocator noise; re-run ./check C18', data['replay'])
    return 0
