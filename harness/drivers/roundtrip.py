"""C01 - content-addressed round trip on every write path.

Paths.tla enumerates (write path, compress, size class, read path); TLC dumps the graph and every Store->Read path
of it is replayed with concrete bytes (compressible / incompressible / mixed) under container configurations drawn
from hash_type x loose_prefix_len x zlib level x pack_size_target.  Oracle: hashlib digest, byte equality, len.
The specification contributes the cover and the abstract law only (stated limit, DESIGN.md section 9).
"""
from __future__ import annotations

import hashlib
import io
import os

from .. import common, tlc

CONFIGS = [(h, p, lvl, t) for h in ('sha256', 'sha1') for p in (0, 1, 2, 3) for lvl in range(1, 10) for t in (70000, 4 << 30)]


def content(size, kind):
    if kind == 'zeros':
        return (b'\x00\x01' * (size // 2 + 1))[:size]
    rnd = common._pseudo_random(min(size, 1 << 16) or 1, size % 97)  # pylint: disable=protected-access
    if kind == 'random':
        out = bytearray()
        i = 0
        while len(out) < size:
            out += hashlib.sha256(b'%d-%d' % (size, i)).digest()
            i += 1
        return bytes(out[:size])
    half = size // 2
    return (rnd * (half // len(rnd) + 1))[:half] + b'T' * (size - half)


class ShortReadStream(io.RawIOBase):
    """A legitimate stream whose read(n) returns fewer than n bytes before EOF (pipe / socket like)."""

    def __init__(self, data):
        super().__init__()
        self.data = data
        self.pos = 0
        self.mode = 'rb'

    def readable(self):
        return True

    def seekable(self):
        return True

    def seek(self, pos, whence=0):
        self.pos = {0: pos, 1: self.pos + pos, 2: len(self.data) + pos}[whence]
        return self.pos

    def tell(self):
        return self.pos

    def read(self, n=-1):
        left = len(self.data) - self.pos
        if n is None or n < 0:
            n = left
        n = min(n, left, max(1, n // 3 + 1) if n > 1 else n, 4093)
        out = self.data[self.pos:self.pos + n]
        self.pos += n
        return out


def store(cont, wpath, compress, data, work):
    from pathlib import Path  # pylint: disable=import-outside-toplevel
    from disk_objectstore.utils import LazyOpener  # pylint: disable=import-outside-toplevel
    neighbours = [b'neighbour-before-' * 3, b'neighbour-after-' * 5]
    if wpath == 'add_object':
        return cont.add_object(data)
    if wpath == 'add_streamed_object':
        return cont.add_streamed_object(io.BytesIO(data))
    if wpath == 'streamed_shortread':
        return cont.add_streamed_object(ShortReadStream(data))
    if wpath == 'to_pack_single':
        return cont.add_objects_to_pack([data], compress=compress)[0]
    if wpath == 'to_pack_batch':
        return cont.add_objects_to_pack([neighbours[0], data, neighbours[1]], compress=compress)[1]
    if wpath == 'streamed_to_pack_single':
        return cont.add_streamed_object_to_pack(io.BytesIO(data), compress=compress)
    if wpath == 'streamed_to_pack_shortread':
        return cont.add_streamed_object_to_pack(ShortReadStream(data), compress=compress)
    if wpath == 'streamed_to_pack_noholes':
        return cont.add_streamed_objects_to_pack([io.BytesIO(neighbours[0]), ShortReadStream(data)], compress=compress, no_holes=True,
                                                 no_holes_read_twice=True)[1]
    if wpath == 'streamed_to_pack_batch':
        return cont.add_streamed_objects_to_pack([io.BytesIO(neighbours[0]), io.BytesIO(data), io.BytesIO(neighbours[1])],
                                                 compress=compress)[1]
    if wpath == 'streamed_to_pack_intruder':
        # while this call holds the pack (between two reads of its second stream) another handle tries to write to the same
        # pack: it must be refused (the pack is locked) and must not disturb what this call stores
        from disk_objectstore import Container  # pylint: disable=import-outside-toplevel
        folder = str(cont.get_folder())

        class Intruded(io.BytesIO):
            tried = False

            def read(self, n=-1):
                if not Intruded.tried:
                    Intruded.tried = True
                    other = Container(folder)
                    try:
                        other.add_objects_to_pack([b'intruder-' * 9, b'second intruder object'], compress=compress)
                    except FileExistsError:
                        pass
                    finally:
                        other.close()
                return super().read(n)

        return cont.add_streamed_objects_to_pack([io.BytesIO(neighbours[0]), Intruded(data), io.BytesIO(neighbours[1])],
                                                 compress=compress)[1]
    if wpath == 'streamed_to_pack_lazy':
        paths = []
        for i, blob in enumerate([neighbours[0], data]):
            path = os.path.join(work, f'lazy{i}')
            with open(path, 'wb') as handle:
                handle.write(blob)
            paths.append(path)
        return cont.add_streamed_objects_to_pack([LazyOpener(Path(p)) for p in paths], open_streams=True, compress=compress)[1]
    if wpath == 'loose_then_pack':
        key = cont.add_object(data)
        cont.add_object(neighbours[0])
        cont.pack_all_loose(compress=compress)
        cont.clean_storage()
        return key
    raise AssertionError(wpath)


def read(cont, rpath, key):
    """Returns (bytes, reported size)."""
    if rpath == 'content':
        return cont.get_object_content(key), None
    if rpath == 'bulk_content':
        return cont.get_objects_content([key, '0' * len(key)], skip_if_missing=True).get(key), None
    if rpath.startswith('stream_'):
        chunk = int(rpath.split('_')[1])
        parts = []
        with cont.get_object_stream_and_meta(key) as (stream, meta):
            while True:
                piece = stream.read(chunk)
                if not piece:
                    break
                parts.append(piece)
        return b''.join(parts), meta.size
    if rpath == 'bulk_stream':
        with cont.get_objects_stream_and_meta([key]) as triplets:
            for _k, stream, meta in triplets:
                return stream.read(), meta.size
        return None, None
    if rpath == 'meta':
        return None, cont.get_object_meta(key).size
    raise AssertionError(rpath)


def _worker(job):
    cases = job
    common.import_lib()
    from disk_objectstore import Container  # pylint: disable=import-outside-toplevel
    failures = []
    done = 0
    with common.scratch('rt') as work:
        for index, (wpath, compress, size, rpaths, cfg, kind) in enumerate(cases):
            hash_type, prefix, level, target = cfg
            folder = os.path.join(work, f'c{index}')
            cont = Container(folder)
            cont.init_container(hash_type=hash_type, loose_prefix_len=prefix, compression_algorithm=f'zlib+{level}',
                                pack_size_target=target)
            data = content(size, kind)
            case = {'wpath': wpath, 'compress': compress, 'size': size, 'cfg': list(cfg), 'kind': kind}
            # a second, long-open handle whose index snapshot predates the store (read paths stale_*)
            stale = None
            if any(r.startswith('stale_') for r in rpaths):
                stale = Container(folder)
                stale.count_objects()
            try:
                key = store(cont, wpath, compress, data, work)
                if key != hashlib.new(hash_type, data).hexdigest():
                    failures.append({**case, 'what': 'key is not the digest of the bytes', 'key': key})
                for rpath in rpaths:
                    if rpath == 'stream_1' and size > 70000:
                        continue
                    if rpath.startswith('scan_'):
                        # the lookup strategy of large requests (one sorted scan of the index instead of IN queries)
                        old = Container._MAX_CHUNK_ITERATE_LENGTH  # pylint: disable=protected-access
                        Container._MAX_CHUNK_ITERATE_LENGTH = 0  # pylint: disable=protected-access
                        try:
                            got, reported = read(cont, rpath[5:], key)
                        finally:
                            Container._MAX_CHUNK_ITERATE_LENGTH = old  # pylint: disable=protected-access
                    elif rpath.startswith('stale_'):
                        got, reported = read(stale, rpath[6:], key)
                    else:
                        got, reported = read(cont, rpath, key)
                    done += 1
                    if got is not None and got != data:
                        failures.append({**case, 'rpath': rpath, 'what': f'read back {len(got)} bytes that differ from the {size} stored'})
                    if got is None and not rpath.endswith('meta'):
                        failures.append({**case, 'rpath': rpath, 'what': 'object not returned'})
                    if reported is not None and reported != size:
                        failures.append({**case, 'rpath': rpath, 'what': f'reported size {reported} != {size}'})
            except Exception as exc:  # noqa pylint: disable=broad-except
                failures.append({**case, 'what': f'raised {type(exc).__name__}: {exc}'[:300]})
            finally:
                cont.close()
                if stale is not None:
                    stale.close()
            import shutil  # pylint: disable=import-outside-toplevel
            shutil.rmtree(folder, ignore_errors=True)
    return done, failures


def check_C01(report: common.Report):
    common.import_lib()
    thorough = report.tier == 'thorough'
    states, edges, inits, res = tlc.dump_graph('Paths', 'MC_Paths.cfg', workers=1, timeout=600)
    if not res.ok:
        tlc.machinery_failure(res, 'Paths model')
    report.set('states', res.distinct)
    report.set('transitions', res.generated)
    succ = {}
    for src, dst, _label in edges:
        succ.setdefault(src, []).append(dst)
    rng = common.rng('C01')
    cases = []
    n_pairs = 0
    for sid in succ.get(inits[0], []):
        st = states[sid]
        rpaths = sorted({states[r]['rpath'] for r in succ.get(sid, [])})
        n_pairs += len(rpaths)
        kinds = ['zeros', 'random', 'mixed'] if thorough else [rng.choice(['zeros', 'random', 'mixed'])]
        reps = 4 if thorough else 1
        if not thorough and st['size'] > 140000 and rng.random() < 0.45:
            continue
        for kind in kinds:
            for _ in range(reps):
                cases.append((st['wpath'], st['z'], st['size'], rpaths, rng.choice(CONFIGS), kind))
    rng.shuffle(cases)
    results = common.pmap(_worker, common.chunks(cases, 32))
    total = 0
    seen = set()
    for done, failures in results:
        total += done
        for failure in failures:
            key = (failure['wpath'], failure.get('rpath'), failure['what'][:30])
            if key in seen:
                continue
            seen.add(key)
            report.violation({'wpath': failure['wpath'], 'rpath': failure.get('rpath', ''), 'what': failure['what'][:40]},
                             {'driver': 'roundtrip', **failure}, f"round trip broken: {failure}")
    cfgs = {c[4] for c in cases}
    report.set('evaluations', total)
    report.set('distinct_nontrivial', len(cases))
    report.set('store_cases', len(cases))
    report.set('abstract_store_read_pairs_in_graph', n_pairs)
    report.set('configurations_used', len(cfgs))
    report.set('traces_validated_against_impl', len(cases))
    report.set('rule', 'case = (write path, compress, size class) from the TLC graph of Paths.tla x content kind x configuration '
                       '(hash, prefix, zlib level, pack target); each case is read back through every read path of the graph')
    report.sample({'case': list(cases[0][:3]) + [cases[0][3][:3], cases[0][4], cases[0][5]]})
    report.assumptions.append('TLA+ contributes the path/size cover and the abstract law; digests and bytes are compared by the harness')


def replay(data) -> int:
    common.import_lib()
    rep = data['replay']
    done, failures = _worker([(rep['wpath'], rep['compress'], rep['size'], [rep.get('rpath', 'content')], tuple(rep['cfg']), rep['kind'])])
    print('replay:', failures or 'passes')
    return 1 if failures else 0
