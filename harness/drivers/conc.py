"""C04 - readers and loose writers are never disturbed by a concurrent packer.

Actors (each with its own ``Container`` handle) run as greenlets under harness/sched.py; every shared-state call of
the library (loose/pack/lock file operations, SQL statements) is a yield point, so an interleaving is a list of
segments and is replayable.  Schedules explored per (packer variant, other actor):

  form A   X runs i steps, the packer runs j steps, X finishes, the packer finishes      (all i, j)
  form B   the packer runs i steps, X runs j steps, the packer finishes, X finishes      (all i, j)
  form C   packer i, X j, packer k, X finishes, packer finishes                          (thorough: sampled)
  random   three actors (writer, reader, packer), seeded random segment lists and actor sequences from TLC -simulate

Every execution is reduced to its logical trace (acks, read starts with the keys acknowledged so far, read results
classified against the content table, unexpected exceptions, final raw projection + fresh-handle reads) and TLC
evaluates the C04 predicates of ConcTrace.tla in every state of every distinct trace.
"""
from __future__ import annotations

import hashlib
import json
import os
import re
import shutil

from .. import common, project, sched, shim, tlc

PRE = [('k1', 'loose'), ('k2', 'loose'), ('k3', 'loose'), ('k5', 'packed'), ('k8', 'packedz')]
UNIVERSE = ['k1', 'k2', 'k3', 'k5', 'k6', 'k7', 'k8', 'k9']


def contents():
    table = dict(common.small_contents().table)
    table['k9'] = b'never stored'
    return common.Contents(table)


CONTENTS = contents()
KEY = {name: hashlib.sha256(CONTENTS[name]).hexdigest() for name in UNIVERSE}
NAME = {v: k for k, v in KEY.items()}


def build_pre(folder):
    from disk_objectstore import Container  # pylint: disable=import-outside-toplevel
    cont = Container(folder)
    cont.init_container(pack_size_target=150, loose_prefix_len=2)
    for key, form in PRE:
        if form == 'loose':
            cont.add_object(CONTENTS[key])
        else:
            cont.add_objects_to_pack([CONTENTS[key]], compress=form == 'packedz')
    cont.close()


# ---------------------------------------------------------------------------------------------- actors


def packer(folder, mode, perpack, clean=True):
    def body(s):
        from disk_objectstore import CompressMode, Container  # pylint: disable=import-outside-toplevel
        cont = Container(folder)
        try:
            # a trailing '!' selects the non-default do_fsync=False
            cont.pack_all_loose(compress=CompressMode[mode.rstrip('!')], clean_loose_per_pack=perpack,
                                do_fsync=not mode.endswith('!'))
            s.log(e='packed')
            if clean:
                cont.clean_storage()
                s.log(e='cleaned')
        finally:
            cont.close()
    return body


def writer(folder, keys):
    def body(s):
        from disk_objectstore import Container  # pylint: disable=import-outside-toplevel
        cont = Container(folder)
        try:
            for k in keys:
                s.log(e='addstart', k=k)
                got = cont.add_object(CONTENTS[k])
                s.log(e='ack', k=k, ok=bool(got == KEY[k]))
        finally:
            cont.close()
    return body


def _cls(name, data):
    return CONTENTS.classify_bytes(name, data).split(':')[0]


def reader(folder, kind, keys, pin=False):
    """kind: has / single / bulk / meta / seek"""
    def body(s):
        from disk_objectstore import Container  # pylint: disable=import-outside-toplevel
        from disk_objectstore.exceptions import NotExistent  # pylint: disable=import-outside-toplevel
        cont = Container(folder)
        try:
            if pin:
                cont.has_objects([KEY['k5']])  # a query that pins the handle's index snapshot
                s.log(e='pinned')
            s.log(e='readstart', keys=list(keys), kind=kind)
            res = []
            if kind == 'has':
                flags = cont.has_objects([KEY[k] for k in keys])
                res = [{'k': k, 'cls': 'OK' if f else 'NotExistent'} for k, f in zip(keys, flags)]
            elif kind == 'single':
                for k in keys:
                    try:
                        res.append({'k': k, 'cls': _cls(k, cont.get_object_content(KEY[k]))})
                    except NotExistent:
                        res.append({'k': k, 'cls': 'NotExistent'})
            elif kind == 'bulk':
                got = cont.get_objects_content([KEY[k] for k in keys], skip_if_missing=False)
                res = [{'k': NAME.get(h, '?'), 'cls': 'NotExistent' if v is None else _cls(NAME.get(h, 'k9'), v)}
                       for h, v in got.items()]
            elif kind == 'meta':
                for h, meta in cont.get_objects_meta([KEY[k] for k in keys], skip_if_missing=False):
                    name = NAME.get(h, '?')
                    if meta.type.value == 'missing':
                        res.append({'k': name, 'cls': 'NotExistent'})
                    else:
                        res.append({'k': name, 'cls': 'OK' if meta.size == len(CONTENTS[name]) else 'GARBAGE'})
            elif kind == 'seek':
                with cont.get_objects_stream_and_meta([KEY[k] for k in keys], skip_if_missing=False) as triplets:
                    for h, stream, _meta in triplets:
                        name = NAME.get(h, '?')
                        if stream is None:
                            res.append({'k': name, 'cls': 'NotExistent'})
                            continue
                        data = CONTENTS[name]
                        if len(data) >= 2:
                            stream.seek(-2, 2)
                            tail = stream.read()
                            stream.seek(0)
                            full = stream.read()
                            ok = tail == data[-2:] and full == data
                            res.append({'k': name, 'cls': 'OK' if ok else _cls(name, full) if full != data else 'GARBAGE'})
                        else:
                            res.append({'k': name, 'cls': _cls(name, stream.read())})
            s.log(e='readret', res=sorted(res, key=lambda r: r['k']), kind=kind)
        finally:
            cont.close()
    return body


X_KINDS = {
    'w-new': lambda f: writer(f, ['k7']),
    'w-dup-loose': lambda f: writer(f, ['k1', 'k7']),
    'w-dup-packed': lambda f: writer(f, ['k5', 'k6']),
    'r-has': lambda f: reader(f, 'has', ['k1', 'k5', 'k9', 'k2']),
    'r-single': lambda f: reader(f, 'single', ['k1', 'k3']),
    'r-bulk': lambda f: reader(f, 'bulk', ['k1', 'k2', 'k5', 'k9']),
    'r-meta': lambda f: reader(f, 'meta', ['k1', 'k2', 'k5', 'k9']),
    'r-seek': lambda f: reader(f, 'seek', ['k2', 'k8']),
    'r-bulk-pinned': lambda f: reader(f, 'bulk', ['k1', 'k2', 'k3'], pin=True),
    'r-has-pinned': lambda f: reader(f, 'has', ['k1', 'k2', 'k9'], pin=True),
    'r-seek-pinned': lambda f: reader(f, 'seek', ['k2', 'k3'], pin=True),
    'r-single-pinned': lambda f: reader(f, 'single', ['k2', 'k8'], pin=True),
}
PACKERS = {'YES-pp1': ('YES', True), 'NO-pp0': ('NO', False), 'YES-pp0': ('YES', False), 'NO-pp1': ('NO', True),
           'AUTO-pp1': ('AUTO', True), 'AUTO-pp0': ('AUTO', False), 'NO-pp1-nofsync': ('NO!', True), 'YES-pp0-nofsync': ('YES!', False)}


def final_observation(folder):
    from disk_objectstore import Container  # pylint: disable=import-outside-toplevel
    state = project.project(folder)
    obs = {
        'loose': [{'k': NAME.get(k, k[:8]), 'tag': v['tag']} for k, v in sorted(state['loose'].items())],
        'rows': [{'k': NAME.get(r['hashkey'], r['hashkey'][:8]), 'p': r['pack_id'], 'off': r['offset'], 'len': r['length'],
                  'z': r['compressed'], 'size': r['size'], 'tag': r['tag']} for r in state['rows']],
        'packs': [{'p': p, 'len': info['len']} for p, info in sorted(state['packs'].items())],
    }
    cont = Container(folder)
    got = cont.get_objects_content([KEY[k] for k in UNIVERSE], skip_if_missing=False)
    cont.close()
    res = [{'k': NAME[h], 'cls': 'NotExistent' if v is None else _cls(NAME[h], v)} for h, v in got.items()]
    return obs, sorted(res, key=lambda r: r['k'])


def execute(base, work, actors_spec, segments, index):
    """Run one schedule on a fresh copy of the pre-state; returns (logical trace, io trace, steps per actor)."""
    folder = os.path.join(work, f'run{index}')
    shutil.copytree(base, folder)
    cfolder = os.path.join(folder, 'c')
    sh = shim.SHIM
    sh.clear()
    sh.add_root(cfolder, 'c', 2, CONTENTS)
    actors = [sched.Actor(name, make(cfolder)) for name, make in actors_spec]
    scheduler = sched.Scheduler(actors, segments)
    sh.handler = scheduler
    error = ''
    try:
        trace = scheduler.run()
    except Exception as exc:  # noqa pylint: disable=broad-except
        trace = scheduler.trace
        error = f'{type(exc).__name__}: {exc}'[:200]
    sh.clear()
    obs, final = final_observation(cfolder)
    shutil.rmtree(folder, ignore_errors=True)
    logical = [ev for ev in trace if ev['e'] != 'io']
    if error:
        logical.append({'a': '-', 'e': 'crashed', 'exc': 'scheduler', 'msg': error})
    logical.append({'a': '-', 'e': 'final', 'obs': obs, 'res': final})
    return logical, trace, {a.name: a.steps for a in actors}


def _norm(line):
    out = {'a': line.get('a', '-'), 'e': line['e'], 'k': line.get('k', ''), 'ok': bool(line.get('ok', True)),
           'keys': line.get('keys', []), 'res': line.get('res', []), 'exc': line.get('exc', ''),
           'obs': line.get('obs', {'loose': [], 'rows': [], 'packs': []})}
    return out


def pair_job(job):
    """Worker: all form-A/B (and sampled form-C) schedules for one (packer variant, X kind)."""
    pname, xname, forms, sample_c, seed = job
    common.import_lib()
    shim.install()
    rng = common.rng('conc', pname, xname, seed)
    mode, perpack = PACKERS[pname]
    spec = [('X', X_KINDS[xname]), ('P', lambda f: packer(f, mode, perpack))]
    unique = {}
    runs = 0
    with common.scratch('cc') as work:
        base = os.path.join(work, 'base')
        os.makedirs(base)
        build_pre(os.path.join(base, 'c'))
        # solo runs to count yield points
        _l, _t, steps = execute(base, work, spec, [('X', None), ('P', None)], 0)
        n_x, n_p = steps['X'] + 1, steps['P'] + 1
        schedules = []
        if 'A' in forms:
            schedules += [[('X', i), ('P', j), ('X', None), ('P', None)] for i in range(0, n_x + 1) for j in range(1, n_p + 1)]
        if 'B' in forms:
            schedules += [[('P', i), ('X', j), ('P', None), ('X', None)] for i in range(1, n_p + 1) for j in range(1, n_x + 1)]
        for _ in range(sample_c):
            i, j, k = rng.randint(1, n_p), rng.randint(1, n_x), rng.randint(1, n_p)
            schedules.append([('P', i), ('X', j), ('P', k), ('X', rng.randint(0, n_x)), ('P', None), ('X', None)])
        for index, segments in enumerate(schedules, 1):
            logical, _trace, _steps = execute(base, work, spec, segments, index)
            runs += 1
            norm = [_norm(line) for line in logical]
            digest = hashlib.sha1(json.dumps(norm, sort_keys=True).encode()).hexdigest()
            if digest not in unique:
                unique[digest] = {'lines': norm, 'segments': segments, 'count': 0, 'packer': pname, 'x': xname,
                                  'actors': ['X', 'P']}
            unique[digest]['count'] += 1
    return {'packer': pname, 'x': xname, 'runs': runs, 'n_x': n_x, 'n_p': n_p, 'unique': list(unique.values())}


def trio_job(job):
    """Worker: writer + reader + packer under random segment lists."""
    pname, wname, rname, count, seed, sequences = job
    common.import_lib()
    shim.install()
    rng = common.rng('trio', pname, wname, rname, seed)
    mode, perpack = PACKERS[pname]
    spec = [('W', X_KINDS[wname]), ('R', X_KINDS[rname]), ('P', lambda f: packer(f, mode, perpack))]
    unique = {}
    runs = 0
    with common.scratch('ct') as work:
        base = os.path.join(work, 'base')
        os.makedirs(base)
        build_pre(os.path.join(base, 'c'))
        plans = []
        for _ in range(count):
            plans.append([(rng.choice(['W', 'R', 'P']), rng.randint(1, 12)) for _ in range(rng.randint(3, 14))])
        for sequence in sequences:
            plans.append([(a, 1) for a in sequence])
        for index, segments in enumerate(plans, 1):
            logical, _trace, _steps = execute(base, work, spec, segments, index)
            runs += 1
            norm = [_norm(line) for line in logical]
            digest = hashlib.sha1(json.dumps(norm, sort_keys=True).encode()).hexdigest()
            if digest not in unique:
                unique[digest] = {'lines': norm, 'segments': segments, 'count': 0, 'packer': pname, 'x': f'{wname}+{rname}',
                                  'actors': ['W', 'R', 'P']}
            unique[digest]['count'] += 1
    return {'packer': pname, 'x': f'{wname}+{rname}', 'runs': runs, 'unique': list(unique.values())}


def crowd_job(job):
    """Worker: two writers (the same new content and duplicates), two readers of different kinds, one seeking reader and
    the packer under random segment lists ('any number of clients')."""
    pname, count, seed = job
    common.import_lib()
    shim.install()
    rng = common.rng('crowd', pname, seed)
    mode, perpack = PACKERS[pname]
    spec = [('W', lambda f: writer(f, ['k7', 'k1'])), ('W2', lambda f: writer(f, ['k7', 'k6', 'k5'])),
            ('R', X_KINDS['r-bulk']), ('R2', X_KINDS['r-single-pinned']), ('S', X_KINDS['r-seek']),
            ('P', lambda f: packer(f, mode, perpack))]
    names = [n for n, _ in spec]
    unique = {}
    runs = 0
    with common.scratch('cw') as work:
        base = os.path.join(work, 'base')
        os.makedirs(base)
        build_pre(os.path.join(base, 'c'))
        for index in range(1, count + 1):
            segments = [(rng.choice(names), rng.randint(1, 10)) for _ in range(rng.randint(4, 24))]
            if index <= min(36, count // 2):
                # a reader that pinned its snapshot before the packing reads while the seeking reader is somewhere inside
                # its re-loosening of the same object
                segments = [('R2', 4), ('P', None), ('S', index), ('R2', None), ('S', None)]
            logical, _trace, _steps = execute(base, work, spec, segments, index)
            runs += 1
            norm = [_norm(line) for line in logical]
            digest = hashlib.sha1(json.dumps(norm, sort_keys=True).encode()).hexdigest()
            if digest not in unique:
                unique[digest] = {'lines': norm, 'segments': segments, 'count': 0, 'packer': pname, 'x': 'crowd', 'actors': names}
            unique[digest]['count'] += 1
    return {'packer': pname, 'x': 'crowd', 'runs': runs, 'unique': list(unique.values())}


INVARIANTS = ['C04_ReadCorrect', 'C04_WriteKeyCorrect', 'C04_NoUnexpectedFailure', 'C04_FinalStateOK']


def monitor(traces, workdir):
    trace_file = os.path.join(workdir, 'conc.ndjson')
    with open(trace_file, 'w', encoding='utf8') as handle:
        handle.write(json.dumps({'kind': 'header', 'universe': UNIVERSE, 'acked0': [k for k, _ in PRE],
                                 'actors': ['X', 'P', 'W', 'R', 'W2', 'R2', 'S', '-']}) + '\n')
        for trace in traces:
            handle.write(json.dumps({'lines': trace['lines']}) + '\n')
    cfg = os.path.join(workdir, 'ConcTrace.cfg')
    with open(cfg, 'w', encoding='utf8') as handle:
        handle.write('SPECIFICATION Spec\n')
        for inv in INVARIANTS:
            handle.write(f'INVARIANT {inv}\n')
        handle.write('CHECK_DEADLOCK FALSE\n')
    res = tlc.run('ConcTrace', cfg, workers=1, timeout=1500, args=['-continue'], env={'TRACE_FILE': trace_file})
    hits = []
    for chunk in re.split(r'(?=Error: Invariant \w+ is violated)', res.output):
        m = re.match(r'Error: Invariant (\w+) is violated', chunk)
        if not m:
            continue
        tids = re.findall(r'/\\ tid = (\d+)', chunk)
        ls = re.findall(r'/\\ l = (\d+)', chunk)
        if tids and ls:
            hits.append((m.group(1), int(tids[-1]), int(ls[-1])))
    return res, hits


def check_C04(report: common.Report):
    common.import_lib()
    from .. import design  # pylint: disable=import-outside-toplevel
    design.check(report, 'C04')
    thorough = report.tier == 'thorough'
    seed = common.seed()
    if thorough:
        packers = list(PACKERS)
        jobs = [(p, x, 'AB', 400, seed) for p in packers for x in X_KINDS]
    else:
        jobs = []
        xs = list(X_KINDS)
        for idx, x in enumerate(xs):
            jobs.append((['YES-pp1', 'NO-pp0', 'YES-pp0', 'NO-pp1', 'NO-pp1-nofsync'][idx % 5], x, 'AB', 30, seed))
            jobs.append((['NO-pp1', 'YES-pp0'][idx % 2], x, 'A' if idx % 2 else 'B', 20, seed))
    results = common.pmap(pair_job, jobs)
    sequences = tlc_sequences(report, 300 if thorough else 60)
    trio_jobs = []
    readers = [x for x in X_KINDS if x.startswith('r-')]
    writers = [x for x in X_KINDS if x.startswith('w-')]
    for idx, rname in enumerate(readers):
        trio_jobs.append((list(PACKERS)[idx % len(PACKERS)], writers[idx % len(writers)], rname, 1500 if thorough else 120,
                          seed, sequences))
    results += common.pmap(trio_job, trio_jobs)
    results += common.pmap(crowd_job, [(p, 400 if thorough else 40, seed) for p in (list(PACKERS) if thorough else ['YES-pp1', 'NO-pp0'])])
    traces = []
    runs = 0
    for result in results:
        runs += result['runs']
        traces += result['unique']
    with common.scratch('mon') as workdir:
        res, hits = monitor(traces, workdir)
    expected = sum(len(t['lines']) for t in traces)
    if res.timeout or (res.error_lines and not hits) or res.distinct != expected:
        print(f'monitor states {res.distinct} expected {expected}')
        tlc.machinery_failure(res, 'ConcTrace monitor')
    seen = set()
    for inv, tid, line_no in hits:
        trace = traces[tid - 1]
        line = trace['lines'][line_no - 1]
        key = (inv, trace['packer'], trace['x'])
        if key in seen:
            continue
        seen.add(key)
        sig = {'invariant': inv, 'x': trace['x'], 'packer': trace['packer']}
        report.violation(sig, {'driver': 'conc', 'packer': trace['packer'], 'x': trace['x'], 'actors': trace['actors'],
                               'segments': trace['segments'], 'invariant': inv},
                         f"{inv}: packer {trace['packer']} with {trace['x']} under schedule {trace['segments']}: "
                         f"line {line_no} {json.dumps({k: v for k, v in line.items() if k != 'obs'})[:500]}; "
                         f"logical trace {json.dumps([{k: v for k, v in ln.items() if k in ('a', 'e', 'k', 'keys', 'res', 'exc')} for ln in trace['lines'][:-1]])[:1500]}")
    report.set('evaluations', runs)
    report.set('distinct_nontrivial', len(traces))
    report.set('schedules_executed', runs)
    report.set('distinct_logical_traces', len(traces))
    report.set('traces_validated_against_impl', len(traces))
    report.add('states', res.distinct)
    report.add('transitions', res.generated)
    report.set('monitor', res.summary())
    report.set('pairs', [{'packer': r['packer'], 'x': r['x'], 'runs': r['runs'], 'steps_x': r.get('n_x'),
                          'steps_packer': r.get('n_p')} for r in results])
    report.set('rule', 'schedule = list of (actor, steps) segments over shared-state I/O calls; forms A/B exhaustive in (i, j) for '
                       'each (packer variant, reader/writer kind), form C and 3-actor schedules sampled; distinct = distinct '
                       'logical trace (acks, read starts/results, failures, final state)')
    from . import concconf  # pylint: disable=import-outside-toplevel
    concconf.check(report)  # step-level conformance of scheduled executions to Dos.tla (drift only)
    report.sample({'schedule': traces[0]['segments'], 'packer': traces[0]['packer'], 'x': traces[0]['x'],
                   'logical': [{k: v for k, v in ln.items() if k != 'obs'} for ln in traces[0]['lines']]})


def tlc_sequences(report, num):
    """Actor sequences from TLC -simulate of the step-level design model (spec -> code), if the model is present."""
    path = os.path.join(common.SPEC, 'MC_Conc.cfg')
    if not os.path.exists(path):
        return []
    behaviours, res = tlc.simulate('MC_Conc', 'MC_Conc.cfg', num=num, depth=60, seed=common.seed() + 11, timeout=300)
    sequences = []
    for behaviour in behaviours:
        seq_ = []
        for _action, state in behaviour:
            actor = state.get('lastActor')
            if actor in ('W', 'R', 'P'):
                seq_.append(actor)
        if seq_:
            sequences.append(seq_)
    report.set('tlc_simulated_schedules', len(sequences))
    return sequences


def replay(data) -> int:
    common.import_lib()
    shim.install()
    rep = data['replay']
    mode, perpack = PACKERS[rep['packer']]
    if rep['actors'] == ['X', 'P']:
        spec = [('X', X_KINDS[rep['x']]), ('P', lambda f: packer(f, mode, perpack))]
    elif rep['x'] == 'crowd':
        spec = [('W', lambda f: writer(f, ['k7', 'k1'])), ('W2', lambda f: writer(f, ['k7', 'k6', 'k5'])),
                ('R', X_KINDS['r-bulk']), ('R2', X_KINDS['r-single-pinned']), ('S', X_KINDS['r-seek']),
                ('P', lambda f: packer(f, mode, perpack))]
    else:
        wname, rname = rep['x'].split('+')
        spec = [('W', X_KINDS[wname]), ('R', X_KINDS[rname]), ('P', lambda f: packer(f, mode, perpack))]
    with common.scratch('cc') as work:
        base = os.path.join(work, 'base')
        os.makedirs(base)
        build_pre(os.path.join(base, 'c'))
        logical, trace, _steps = execute(base, work, spec, [tuple(s) for s in rep['segments']], 1)
    for ev in trace:
        print({k: v for k, v in ev.items() if k != 'obs'})
    with common.scratch('mon') as workdir:
        _res, hits = monitor([{'lines': [_norm(line) for line in logical]}], workdir)
    print('replay: violated', sorted({h[0] for h in hits}) or 'nothing')
    return 1 if hits else 0
