"""Entry points of the properties decided on sequential histories (see seq.py, SeqTrace.tla)."""
from __future__ import annotations

from .. import common
from . import seq

ASSUME = [
    'contents are identified with keys (no hash collisions); bytes/digests/inflate are established by the projection',
    'views are taken through a fresh handle after every call; views through the history handle are explicit steps',
]


def _sizes(report, quick, thorough):
    return thorough if report.tier == 'thorough' else quick


def stale_maintenance_histories():
    """One call at a time, two handles: a handle that queried the index earlier (its session holds that snapshot) runs a
    maintenance operation after another handle has stored objects.  Monitor only (no model of SQLite refusing a write
    from an older snapshot: where the library raises `database is locked` the store must simply be unchanged)."""
    ap = lambda h, ks, z=False: {'name': 'addpack', 'h': h, 'keys': ks, 'z': z, 'noholes': False, 'twice': True, 'via': 'bytes'}  # noqa
    out = []
    pins = ({'name': 'has', 'h': 'h1', 'keys': ['k1']}, {'name': 'list', 'h': 'h1'}, {'name': 'get', 'h': 'h1', 'keys': ['k1', 'k9']})
    for pin in pins:
        for mode in ('KEEP', 'YES'):
            for setup in ([{'name': 'add', 'h': 'h1', 'keys': ['k1'], 'via': 'bytes'}], [ap('h1', ['k1'])], []):
                steps = [dict(x) for x in setup] + [dict(pin), ap('h2', ['k2', 'k3'], z=True),
                                                    {'name': 'repack', 'h': 'h1', 'mode': mode},
                                                    {'name': 'get', 'h': 'h2', 'keys': ['k1', 'k2', 'k3']}]
                out.append(({'hash': 'sha256', 'prefix': 2, 'zlevel': 1, 'target': 10 ** 9, 'noconform': True}, steps))
    return out


def check_C02(report):
    n, length = _sizes(report, (240, 12), (4000, 25))
    seq.model_check(report, 3, 5, ['Refines', 'ViewsEqualMap', 'ListEqualsMap', 'SnapshotsAreOld'], ['Act_MaintenanceKeepsMap'])
    extra = stale_maintenance_histories()
    seq.run_histories(report, 'C02', n, length, ['C02'], extra_histories=extra, sim=(80 if report.tier == 'quick' else 1200, 12))
    report.set('stale_handle_maintenance_histories', len(extra))
    report.assumptions += ASSUME


def check_C03(report):
    n, length = _sizes(report, (240, 12), (4000, 25))
    seq.model_check(report, 3, 5, ['Inv_IndexOK', 'Inv_Dedup'], [])
    traces = seq.run_histories(report, 'C03', n, length, ['C03'], sim=(80 if report.tier == 'quick' else 1200, 12))
    # unusual inputs: streams handed over at a non-zero position, in every direct-to-pack parameter combination
    def offset_history(rng, _length):
        steps = [seq.random_step(rng, 'C03') for _ in range(rng.randint(0, 3))]
        for _ in range(rng.randint(1, 3)):
            steps.append({'name': 'addpack', 'keys': [rng.choice(seq.UNIVERSE[:8]) for _ in range(rng.randint(1, 3))],
                          'z': rng.random() < 0.5, 'noholes': rng.random() < 0.7, 'twice': rng.random() < 0.6, 'via': 'offset'})
        return steps
    traces += seq.run_histories(report, 'C03-offset', 80 if report.tier == 'quick' else 1500, 0, ['C03'], generator=offset_history,
                                conform=False)
    bad = [(t['tid'], i) for t in traces for i, line in enumerate(t['lines']) if line['recipe_bad']]
    for tid, i in bad[:5]:
        trace = traces[tid - 1]
        report.violation({'invariant': 'recipe', 'op': trace['lines'][i]['op']['name']},
                         {'driver': 'seq', 'cfg': trace['cfg'], 'steps': trace['steps'][:i], 'invariant': 'recipe'},
                         f"manual recovery recipe returns wrong bytes for {trace['lines'][i]['recipe_bad']} after "
                         f"{trace['steps'][:i]}")
    report.set('recipe_checks', sum(len(t['lines']) for t in traces) * len(seq.UNIVERSE))
    report.assumptions += ASSUME


def check_C13(report):
    n, length = _sizes(report, (240, 14), (4000, 25))
    seq.model_check(report, 3, 5, ['Inv_PackNumbering'], ['Act_AppendOnly', 'Act_OnlyLastPackGrows'])
    # the same with lock files left by killed writers as environment steps
    seq.model_check(report, 3, 4, ['Inv_PackNumbering', 'Refines', 'Inv_IndexOK'], ['Act_AppendOnly', 'Act_OnlyLastPackGrows'],
                    config='MC_SeqLocks')
    # two handles that both write to packs, one of them with an index snapshot older than the other's commits (monitor
    # only: DosSeq has no model of SQLite refusing to write from a stale snapshot, so these stay below that limit: the
    # stale handle only passes contents it knows)
    extra = []
    ap = lambda h, ks, nh, tw, z=False: {'name': 'addpack', 'h': h, 'keys': ks, 'z': z, 'noholes': nh, 'twice': tw, 'via': 'bytes'}  # noqa
    for target in (10 ** 9, 60):
        for nh, tw in ((True, True), (True, False), (False, True)):
            for pin in ({'name': 'has', 'h': 'h1', 'keys': ['k2']}, {'name': 'list', 'h': 'h1'}, {'name': 'get', 'h': 'h1', 'keys': ['k2', 'k9']}):
                steps = [ap('h1', ['k2'], False, True), dict(pin), ap('h2', ['k3', 'k5'], False, True, z=True),
                         ap('h1', ['k2', 'k2'] if nh else [], nh, tw), {'name': 'get', 'h': 'h2', 'keys': ['k2', 'k3', 'k5']},
                         {'name': 'reopen', 'h': 'h1'}, ap('h1', ['k6'], nh, tw), {'name': 'get', 'h': 'h1', 'keys': ['k2', 'k3', 'k5', 'k6']}]
                extra.append(({'hash': 'sha256', 'prefix': 2, 'zlevel': 1, 'target': target, 'noconform': True}, steps))
    # a second writer that gets in between the first writer's choice of a pack and its lock (from the 'init' progress
    # callback of the first call): it fills the chosen pack and starts the next one
    for target in (60, 300):
        for inner_keys in (['k5'], ['k5', 'k8'], ['k3', 'k5']):
            outer = ap('h1', ['k6', 'k7', 'k2'], False, True)
            outer['nested'] = ap('h2', inner_keys, False, True)
            steps = [ap('h1', ['k1'], False, True), outer, {'name': 'get', 'h': 'h2', 'keys': ['k1', 'k2', 'k5', 'k6', 'k7']},
                     ap('h2', ['k9' if False else 'k3'], False, True)]
            extra.append(({'hash': 'sha256', 'prefix': 2, 'zlevel': 1, 'target': target, 'noconform': True}, steps))
    seq.run_histories(report, 'C13', n, length, ['C13'], extra_histories=extra, sim=(80 if report.tier == 'quick' else 1200, 12))
    report.set('two_writer_histories', len(extra))
    report.assumptions += ASSUME


def check_C09_seq(report):
    n, length = _sizes(report, (240, 12), (3000, 25))
    seq.model_check(report, 3, 5, ['Inv_Dedup', 'Inv_IndexOK'], ['Act_NoHoles'])
    extra = []
    cfg = {'hash': 'sha256', 'prefix': 2, 'zlevel': 1, 'target': 10 ** 9}
    for how in ('first', 'last', 'truncate', 'empty', 'grow'):
        for key in ('k2', 'k3', 'k7'):
            for via in ('bytes', 'stream'):
                readd = {'name': 'readd', 'keys': [key], 'via': via, 'how': how}
                add = {'name': 'add', 'keys': [key], 'via': via}
                extra.append((cfg, [add, readd]))
                extra.append((cfg, [add, add, readd, readd]))
                extra.append((cfg, [add, {'name': 'pack', 'mode': 'NO', 'perpack': False, 'validate': True}, add, readd]))
    seq.run_histories(report, 'C09', n, length, ['C09'], sim=(80 if report.tier == 'quick' else 1200, 12), extra_histories=extra)
    report.assumptions += ASSUME


def check_C10_seq(report):
    n, length = _sizes(report, (240, 12), (3000, 25))
    seq.model_check(report, 3, 5, ['Refines', 'Inv_IndexOK'], ['Act_MaintenanceKeepsMap'])
    seq.run_histories(report, 'C10', n, length, ['C10'], sim=(40 if report.tier == 'quick' else 600, 12))
    report.assumptions += ASSUME


def check_C11_seq(report):
    n, length = _sizes(report, (240, 12), (3000, 25))
    seq.model_check(report, 3, 5, ['Refines'], ['Act_DeleteExact', 'Act_RepackCompact'])
    seq.run_histories(report, 'C11', n, length, ['C11'], sim=(40 if report.tier == 'quick' else 600, 12))
    report.assumptions += ASSUME


def check_C09(report):
    check_C09_seq(report)


def check_C10(report):
    check_C10_seq(report)


def check_C11(report):
    check_C11_seq(report)


# ------------------------------------------------------------------------------------------------
# C08: several handles on one folder, one call at a time
# ------------------------------------------------------------------------------------------------

HANDLES = ('h1', 'h2', 'hp')


def multi_history(rng, length):
    steps = []
    keys = seq.UNIVERSE[:6]
    for _ in range(length):
        roll = rng.random()
        if roll < 0.25:
            steps.append({'name': 'add', 'h': rng.choice(HANDLES), 'keys': [rng.choice(keys)], 'via': 'bytes'})
        elif roll < 0.40:
            steps.append({'name': 'pack', 'h': 'hp', 'mode': rng.choice(['NO', 'YES', 'AUTO']), 'perpack': rng.random() < 0.5,
                          'validate': True})
        elif roll < 0.50:
            steps.append({'name': 'clean', 'h': 'hp', 'vacuum': rng.random() < 0.3})
        else:
            kind = rng.choice(['has', 'get', 'meta', 'list', 'list', 'listpart'])
            step = {'name': kind, 'h': rng.choice(HANDLES)}
            if kind not in ('list', 'listpart'):
                # mostly keys that exist (no fallback => the snapshot stays pinned), sometimes absent ones
                pool = keys if rng.random() < 0.7 else seq.UNIVERSE
                step['keys'] = sorted({rng.choice(pool) for _ in range(rng.randint(1, 3))})
                if len(step['keys']) == 1 and rng.random() < 0.6:
                    step['single'] = 'stream' if kind == 'get' and rng.random() < 0.5 else True
            steps.append(step)
    return steps


def multi_aba(rng):
    """Systematic multi-handle histories: a view through a long-open handle, then other handles add / pack / clean (the
    steps C08 speaks of: deletions and repacks are maintenance operations, a handle with an older snapshot may still
    answer from it), then the same view through the same handle and through another one."""
    setups = {
        'loose': [{'name': 'add', 'h': 'h1', 'keys': ['k1'], 'via': 'bytes'}, {'name': 'add', 'h': 'h2', 'keys': ['k2'], 'via': 'bytes'}],
        'packed': [{'name': 'add', 'h': 'h1', 'keys': ['k1'], 'via': 'bytes'}, {'name': 'add', 'h': 'h2', 'keys': ['k2'], 'via': 'bytes'},
                   {'name': 'pack', 'h': 'hp', 'mode': 'NO', 'perpack': False, 'validate': True}],
        'packedz-cleaned': [{'name': 'add', 'h': 'h2', 'keys': ['k1'], 'via': 'bytes'}, {'name': 'add', 'h': 'h2', 'keys': ['k2'], 'via': 'bytes'},
                            {'name': 'pack', 'h': 'hp', 'mode': 'YES', 'perpack': True, 'validate': True}],
    }
    views = {
        'has': {'name': 'has', 'keys': ['k1', 'k2', 'k3', 'k4']}, 'get': {'name': 'get', 'keys': ['k1', 'k3', 'k4']},
        'meta': {'name': 'meta', 'keys': ['k2', 'k3', 'k4']}, 'list': {'name': 'list'}, 'listpart': {'name': 'listpart'},
        'has1e': {'name': 'has', 'keys': ['k4'], 'single': True}, 'get1e': {'name': 'get', 'keys': ['k4'], 'single': True},
        'getall': {'name': 'get', 'keys': ['k1', 'k2', 'k3', 'k5', 'k9'], 'report_missing': True},
        'has1': {'name': 'has', 'keys': ['k3'], 'single': True}, 'get1': {'name': 'get', 'keys': ['k3'], 'single': True},
        'get1s': {'name': 'get', 'keys': ['k3'], 'single': 'stream'}, 'meta1': {'name': 'meta', 'keys': ['k3'], 'single': True},
    }
    disturbances = {
        'add-packz-pp': [{'name': 'add', 'h': 'h2', 'keys': ['k3'], 'via': 'bytes'},
                         {'name': 'pack', 'h': 'hp', 'mode': 'YES', 'perpack': True, 'validate': True}],
        'add-pack-clean': [{'name': 'add', 'h': 'h2', 'keys': ['k3'], 'via': 'stream'},
                           {'name': 'pack', 'h': 'hp', 'mode': 'NO', 'perpack': False, 'validate': False},
                           {'name': 'clean', 'h': 'hp', 'vacuum': False}],
        'clean-vacuum': [{'name': 'clean', 'h': 'hp', 'vacuum': True}],
        'add': [{'name': 'add', 'h': 'h2', 'keys': ['k3'], 'via': 'bytes'}],
        # two new objects that end up in different packs (small pack target): the retry pass finds them in several packs
        'add2-pack-clean': [{'name': 'add', 'h': 'h2', 'keys': ['k3'], 'via': 'bytes'}, {'name': 'add', 'h': 'h2', 'keys': ['k5'], 'via': 'bytes'},
                            {'name': 'pack', 'h': 'hp', 'mode': 'NO', 'perpack': False, 'validate': True},
                            {'name': 'clean', 'h': 'hp', 'vacuum': False}],
        # the empty object alone: packing it appends no byte to the pack
        'add-empty-pack-pp': [{'name': 'add', 'h': 'h2', 'keys': ['k4'], 'via': 'bytes'},
                              {'name': 'pack', 'h': 'hp', 'mode': 'NO', 'perpack': True, 'validate': True}],
        'add-empty-pack-clean': [{'name': 'add', 'h': 'h1', 'keys': ['k4'], 'via': 'stream'},
                                 {'name': 'pack', 'h': 'hp', 'mode': 'NO', 'perpack': False, 'validate': True},
                                 {'name': 'clean', 'h': 'hp', 'vacuum': False}],
    }
    out = []
    for setup in setups.values():
        for view in views.values():
            for disturbance in disturbances.values():
                steps = [dict(x) for x in setup] + [dict(view, h='h1')] + [dict(x) for x in disturbance]
                steps += [dict(view, h='h1'), dict(view, h='h2'), {'name': 'meta', 'h': 'h1', 'keys': ['k1', 'k2', 'k3']}]
                out.append(({'hash': 'sha256', 'prefix': 2, 'zlevel': 1, 'target': rng.choice([50, 10 ** 9])}, steps))
    return out


def tlc_multi_histories(num, depth, seed):
    """Behaviours of MC_Multi generated by TLC, as executable multi-handle histories (spec -> code)."""
    from .. import tlc  # pylint: disable=import-outside-toplevel
    behaviours, res = tlc.simulate('MC_Multi', 'MC_Multi_sim.cfg', num=num, depth=depth, seed=seed, timeout=300)
    if res.error_lines:
        tlc.machinery_failure(res, 'MC_Multi simulation')
    histories = []
    for behaviour in behaviours:
        steps = []
        for _action, state in behaviour:
            last = state.get('last')
            if not last or last['op'] == 'init':
                continue
            step = seq._step_from_last(last, [])  # pylint: disable=protected-access
            if step:
                step['h'] = last['h']
                steps.append(step)
        if steps:
            histories.append(steps)
    return histories


def check_C08(report):
    from .. import tlc  # pylint: disable=import-outside-toplevel
    quick = report.tier == 'quick'
    res = tlc.run('MC_Multi', 'MC_Multi.cfg', workers=16, timeout=3000)
    if not res.ok:
        if res.violated:
            print(f'DESIGN-COUNTEREXAMPLE: MC_Multi violates {res.violated} (the model describes the code as it is; the trace '
                  'checks below decide whether the real library shows it)')
            report.note(f'design model MC_Multi violates {res.violated}')
        else:
            tlc.machinery_failure(res, 'MC_Multi')
    report.add('states', res.distinct)
    report.add('transitions', res.generated)
    report.set('design_model', {'config': 'MC_Multi', **res.summary()})
    extra = []
    rng = common.rng('C08-sim')
    for steps in tlc_multi_histories(60 if quick else 1500, 14, common.seed() + 5):
        cfg = {'hash': 'sha256', 'prefix': 2, 'zlevel': 1, 'target': rng.choice([50, 10 ** 9])}
        extra.append((cfg, steps))
    n_sim = len(extra)
    aba = multi_aba(rng)
    extra += aba
    n, length = (200, 16) if quick else (4000, 30)
    seq.run_histories(report, 'C08', n, length, ['C08'], extra_histories=extra, generator=multi_history, handles=HANDLES)
    report.set('histories_from_tlc_simulation', n_sim)
    report.set('systematic_aba_histories', len(aba))
    report.assumptions += ASSUME


# ------------------------------------------------------------------------------------------------
# C14: import lattice
# ------------------------------------------------------------------------------------------------


def import_history(rng, length):
    steps = []
    pool = seq.UNIVERSE[:8]
    for _ in range(rng.randint(0, 4)):
        roll = rng.random()
        if roll < 0.4:
            steps.append({'name': 'add', 'keys': [rng.choice(pool)], 'via': 'bytes'})
        elif roll < 0.75:
            steps.append({'name': 'addpack', 'keys': [rng.choice(pool) for _ in range(rng.randint(1, 3))], 'z': rng.random() < 0.5,
                          'noholes': False, 'twice': True, 'via': 'bytes'})
        else:
            steps.append({'name': 'pack', 'mode': rng.choice(['NO', 'YES']), 'perpack': rng.random() < 0.5, 'validate': True})
    for _ in range(rng.randint(1, 2)):
        src = rng.randrange(len(seq.SOURCES))
        held = sorted(seq.SOURCES[src][1])
        wanted = [rng.choice(held) for _ in range(rng.randint(1, 5))]
        if rng.random() < 0.5:
            wanted.append(rng.choice(seq.UNIVERSE))  # possibly absent from the source
        if rng.random() < 0.4:
            wanted.append(wanted[0])  # repeated key
        rng.shuffle(wanted)
        steps.append({'name': 'import', 'keys': wanted, 'z': rng.random() < 0.5,
                      'budget': rng.choice([1, 8, 30, 45, 100, 200, 400, 10 ** 8]),
                      'iterable': rng.choice(['list', 'tuple', 'set', 'generator']), 'callback': rng.random() < 0.5, 'src': src})
    return steps


def check_C14(report):
    n, length = _sizes(report, (360, 0), (8000, 0))
    seq.model_check(report, 3, 5, ['Refines', 'Inv_IndexOK', 'Inv_Dedup'], ['Act_MaintenanceKeepsMap'])
    traces = seq.run_histories(report, 'C14', n, length, ['C14'], generator=import_history)
    combos = set()
    for trace in traces:
        for step in trace['steps']:
            if step['name'] == 'import':
                kind = seq.SOURCES[step['src']][0]
                combos.add((trace['cfg']['hash'], kind, step['z'], step['budget'], step['iterable'], step['callback']))
    report.set('import_parameter_combinations', len(combos))
    report.assumptions += ASSUME


def replay(data) -> int:
    """--replay for every check of this module: the recorded history is executed again and monitored."""
    return seq.replay(data)
