"""Entry points of the properties decided on sequential histories (see seq.py, SeqTrace.tla)."""
from __future__ import annotations

from .. import common
from . import seq

ASSUME = [
    'contents are identified with keys (no hash collisions); bytes/digests/inflate are established by the projection',
    'views are taken through a fresh handle after every call; views through the history handle are explicit steps',
]


def _sizes(report, quick, thorough):
    return thorough if report.tier == 'thorough' else quick


def check_C02(report):
    n, length = _sizes(report, (240, 12), (4000, 25))
    seq.model_check(report, 3, 5, ['Refines', 'ViewsEqualMap', 'ListEqualsMap', 'SnapshotsAreOld'], ['Act_MaintenanceKeepsMap'])
    seq.run_histories(report, 'C02', n, length, ['C02'], sim=(80 if report.tier == 'quick' else 1200, 12))
    report.assumptions += ASSUME


def check_C03(report):
    n, length = _sizes(report, (240, 12), (4000, 25))
    seq.model_check(report, 3, 5, ['Inv_IndexOK', 'Inv_Dedup'], [])
    traces = seq.run_histories(report, 'C03', n, length, ['C03'], sim=(80 if report.tier == 'quick' else 1200, 12))
    bad = [(t['tid'], i) for t in traces for i, line in enumerate(t['lines']) if line['recipe_bad']]
    for tid, i in bad[:5]:
        trace = traces[tid - 1]
        report.violation({'invariant': 'recipe', 'op': trace['lines'][i]['op']['name']},
                         {'driver': 'seq', 'cfg': trace['cfg'], 'steps': trace['steps'][:i], 'invariant': 'recipe'},
                         f"manual recovery recipe returns wrong bytes for {trace['lines'][i]['recipe_bad']} after "
                         f"{trace['steps'][:i]}")
    report.set('recipe_checks', sum(len(t['lines']) for t in traces) * len(seq.UNIVERSE))
    report.assumptions += ASSUME


def check_C13(report):
    n, length = _sizes(report, (240, 14), (4000, 25))
    seq.model_check(report, 3, 5, ['Inv_PackNumbering'], ['Act_AppendOnly', 'Act_OnlyLastPackGrows'])
    seq.run_histories(report, 'C13', n, length, ['C13'], sim=(80 if report.tier == 'quick' else 1200, 12))
    report.assumptions += ASSUME


def check_C09_seq(report):
    n, length = _sizes(report, (240, 12), (3000, 25))
    seq.model_check(report, 3, 5, ['Inv_Dedup', 'Inv_IndexOK'], ['Act_NoHoles'])
    seq.run_histories(report, 'C09', n, length, ['C09'], sim=(80 if report.tier == 'quick' else 1200, 12))
    report.assumptions += ASSUME


def check_C10_seq(report):
    n, length = _sizes(report, (240, 12), (3000, 25))
    seq.model_check(report, 3, 5, ['Refines', 'Inv_IndexOK'], ['Act_MaintenanceKeepsMap'])
    seq.run_histories(report, 'C10', n, length, ['C10'], sim=(40 if report.tier == 'quick' else 600, 12))
    report.assumptions += ASSUME


def check_C11_seq(report):
    n, length = _sizes(report, (240, 12), (3000, 25))
    seq.model_check(report, 3, 5, ['Refines'], ['Act_DeleteExact', 'Act_RepackCompact'])
    seq.run_histories(report, 'C11', n, length, ['C11'], sim=(40 if report.tier == 'quick' else 600, 12))
    report.assumptions += ASSUME


def check_C09(report):
    check_C09_seq(report)


def check_C10(report):
    check_C10_seq(report)


def check_C11(report):
    check_C11_seq(report)
