"""C15 - a backup taken while the container is in use is complete and consistent.

The real ``backup_container`` runs with the real rsync.  A subclass of ``BackupManager`` (harness side, nothing in /repo
changes) calls a hook before and after every rsync invocation, and the SQLite dump is wrapped the same way, so the
concurrent steps of other handles (loose adds, pack_all_loose with/without per-pack cleaning, clean_storage,
direct-to-pack adds) can be placed at every boundary between the backup's copy phases, in every order-preserving
assignment.  Full and incremental (on top of a previous backup) backups.  TLC evaluates BackupValid
(BackupTrace.tla) on every backup taken.
"""
from __future__ import annotations

import hashlib
import itertools
import json
import os
import re
import shutil

from .. import common, project, tlc

POSITIONS = ['before-loose', 'before-dump', 'after-dump', 'before-packs', 'before-rest', 'after-rest']
UNIVERSE = ['k1', 'k2', 'k3', 'k5', 'k6', 'k7', 'k8']


def contents():
    return common.small_contents()


SCRIPTS = {
    'add-pack-clean': ['add:k7', 'pack', 'clean'],
    'add-packpp-direct': ['add:k3', 'packpp', 'direct:k6'],
    'direct-add-pack-clean': ['direct:k6', 'add:k7', 'pack', 'clean'],
    'pack-clean-add': ['pack', 'clean', 'add:k3'],
    'packz-clean-direct': ['packz', 'clean', 'directz:k7'],
}


def build(folder):
    from disk_objectstore import Container  # pylint: disable=import-outside-toplevel
    table = contents()
    cont = Container(folder)
    cont.init_container(pack_size_target=200, loose_prefix_len=2)
    cont.add_objects_to_pack([table['k5']], compress=False)
    cont.add_objects_to_pack([table['k8']], compress=True)
    cont.add_object(table['k1'])
    cont.add_object(table['k2'])
    cont.close()
    return ['k1', 'k2', 'k5', 'k8']


def examine(folder, table):
    from disk_objectstore import Container  # pylint: disable=import-outside-toplevel
    key_of = {k: hashlib.sha256(table[k]).hexdigest() for k in UNIVERSE}
    name_of = {v: k for k, v in key_of.items()}
    state = project.project(folder)
    obs = {
        'loose': [{'k': name_of.get(k, k[:8]), 'tag': v['tag']} for k, v in sorted(state['loose'].items())],
        'rows': [{'k': name_of.get(r['hashkey'], r['hashkey'][:8]), 'p': r['pack_id'], 'off': r['offset'], 'len': r['length'],
                  'z': r['compressed'], 'size': r['size'], 'tag': r['tag']} for r in state['rows']],
        'packs': [{'p': p, 'len': info['len']} for p, info in sorted(state['packs'].items())],
    }
    cont = Container(folder)
    views, listed = [], []
    try:
        for name in UNIVERSE:
            try:
                has = bool(cont.has_object(key_of[name]))
            except Exception:  # noqa pylint: disable=broad-except
                has = False
            try:
                cls = table.classify_bytes(name, cont.get_object_content(key_of[name])).split(':')[0]
            except Exception as exc:  # noqa pylint: disable=broad-except
                cls = 'NotExistent' if type(exc).__name__ == 'NotExistent' else 'RAISED'
            views.append({'k': name, 'has': has, 'cls': cls})
        try:
            for key in cont.list_all_objects():
                name = name_of.get(key, key[:8])
                try:
                    data = cont.get_object_content(key)
                    cls = 'OK' if hashlib.sha256(data).hexdigest() == key else 'GARBAGE'
                except Exception:  # noqa pylint: disable=broad-except
                    cls = 'RAISED'
                listed.append({'k': name, 'cls': cls})
        except Exception:  # noqa pylint: disable=broad-except
            listed.append({'k': '?', 'cls': 'RAISED'})
        try:
            issues = cont.validate()
            val = 'clean' if issues.is_valid() else 'issues'
        except Exception:  # noqa pylint: disable=broad-except
            val = 'raised'
    finally:
        cont.close()
    return obs, views, listed, val


def run_backup(job):
    script_name, placement, incremental, index = job[:4]
    long_open_source = len(job) > 4 and job[4]
    common.import_lib()
    from disk_objectstore import CompressMode, Container, backup_utils  # pylint: disable=import-outside-toplevel

    table = contents()
    steps = SCRIPTS[script_name]
    line = {'script': script_name, 'placement': list(placement), 'incremental': incremental, 'long_open_source': bool(long_open_source)}
    with common.scratch('bk') as work:
        folder = os.path.join(work, 'c')
        before = build(folder)
        dest = os.path.join(work, 'dest')
        os.makedirs(dest)
        # long-lived handles of the other clients (they keep the index connections open)
        writer = Container(folder)
        packer_handle = Container(folder)
        direct = Container(folder)
        writer.has_objects([hashlib.sha256(table['k1']).hexdigest()])

        def do(step):
            kind, _, key = step.partition(':')
            if kind == 'add':
                writer.add_object(table[key])
            elif kind == 'pack':
                packer_handle.pack_all_loose()
            elif kind == 'packpp':
                packer_handle.pack_all_loose(clean_loose_per_pack=True)
            elif kind == 'packz':
                packer_handle.pack_all_loose(compress=CompressMode.YES)
            elif kind == 'clean':
                packer_handle.clean_storage()
            elif kind == 'direct':
                direct.add_objects_to_pack([table[key]], compress=False)
            elif kind == 'directz':
                direct.add_objects_to_pack([table[key]], compress=True)

        pending = list(zip(placement, steps))
        state = {'n': 0, 'armed': False}
        events = []          # what really happened, in order, as DosBackup actions (BackupConf)
        expand = {'add': lambda key: [{'e': 'add', 'k': key}],
                  'pack': lambda key: [{'e': 'pstart'}, {'e': 'pappend'}, {'e': 'pcommit'}, {'e': 'pdone'}],
                  'packz': lambda key: [{'e': 'pstart'}, {'e': 'pappend'}, {'e': 'pcommit'}, {'e': 'pdone'}],
                  'packpp': lambda key: [{'e': 'pstart'}, {'e': 'pappend'}, {'e': 'pcommit'}, {'e': 'pcleanown'}],
                  'clean': lambda key: [{'e': 'cstart'}, {'e': 'cleanall'}],
                  'direct': lambda key: [{'e': 'dappend', 'k': key}, {'e': 'dcommit'}],
                  'directz': lambda key: [{'e': 'dappend', 'k': key}, {'e': 'dcommit'}]}

        def classify(src, extra_args):
            name = os.path.basename(str(src).rstrip('/'))
            if name == 'loose':
                return {'e': 'loose'}
            if name == 'packs.idx':
                return {'e': 'idx'}
            if name == 'packs':
                return {'e': 'packs'}
            excluded = set((extra_args or [])[1::2])
            return {'e': 'rest', 'live': not {'packs.idx-wal', 'packs.idx-shm'} <= excluded}

        def hook(position):
            if not state['armed']:
                return
            while pending and pending[0][0] == position:
                step = pending.pop(0)[1]
                do(step)
                kind, _, key = step.partition(':')
                events.extend(expand[kind](key))

        class SteppedManager(backup_utils.BackupManager):
            def call_rsync(self, *args, **kwargs):
                state['n'] += 1
                hook({1: 'before-loose', 2: 'after-dump', 3: 'before-packs', 4: 'before-rest'}.get(state['n'], ''))
                if state['armed']:
                    events.append(classify(args[0] if args else kwargs.get('src'), kwargs.get('extra_args')))
                super().call_rsync(*args, **kwargs)
                if state['n'] == 4:
                    hook('after-rest')

        real_dump = backup_utils._sqlite_backup  # pylint: disable=protected-access

        def dump(src, dst):
            hook('before-dump')
            if state['armed']:
                events.append({'e': 'dump'})
            return real_dump(src, dst)

        backup_utils._sqlite_backup = dump  # pylint: disable=protected-access
        failed = ''
        try:
            manager = SteppedManager(dest)
            source = Container(folder)
            if long_open_source:
                # the backup is driven through a long-open handle that has queried the index before
                source.has_objects([hashlib.sha256(table['k1']).hexdigest()])
                source.count_objects()
            prev = None
            if incremental:
                prev = os.path.join(dest, 'b0')
                backup_utils.backup_container(manager, source, type(source.get_folder())(prev), None)
                before = before  # the previous backup holds the pre-state
                # something happens between the two backups as well
                writer.add_object(table['k6'] if 'direct:k6' not in steps else table['k3'])
                packer_handle.pack_all_loose()
                if index % 3 != 2:
                    # ... and is cleaned: from now on the object is reachable through the index only, so the new backup
                    # must carry an index that knows it (the dumps of the two backups usually fall into the same second)
                    cleaner = Container(folder)      # a handle of its own: a handle left with a pinned snapshot cannot
                    cleaner.clean_storage()          # write once somebody else has committed (SQLITE_BUSY_SNAPSHOT)
                    cleaner.close()
                before = before + (['k6'] if 'direct:k6' not in steps else ['k3'])
                state['n'] = 0
            state['armed'] = True
            key_name = {hashlib.sha256(table[k]).hexdigest(): k for k in UNIVERSE}
            start = project.project(folder)
            line['loose0'] = sorted(key_name.get(k, k[:8]) for k in start['loose'])
            line['packed0'] = [key_name.get(r['hashkey'], r['hashkey'][:8])
                               for r in sorted(start['rows'], key=lambda r: (r['pack_id'], r['offset']))]
            events.append({'e': 'begin'})
            target = os.path.join(dest, 'b1')
            try:
                backup_utils.backup_container(manager, source, type(source.get_folder())(target),
                                              type(source.get_folder())(prev) if prev else None)
            except backup_utils.BackupError as exc:
                failed = str(exc)[:200]
            source.close()
        finally:
            backup_utils._sqlite_backup = real_dump  # pylint: disable=protected-access
        for step in [s for _p, s in pending]:
            do(step)
        for cont in (writer, packer_handle, direct):
            cont.close()
        line.update(before=before, failed=bool(failed), error=failed)
        if failed:
            line.update(obs={'loose': [], 'rows': [], 'packs': []}, views=[], listed=[], val='n/a')
        else:
            obs, views, listed, val = examine(target, table)
            line.update(obs=obs, views=views, listed=listed, val=val)
            events.append({'e': 'end', 'loose': [x['k'] for x in obs['loose']], 'rows': [x['k'] for x in obs['rows']]})
            line['lines'] = events
            line['extra_files'] = sorted(f for f in os.listdir(target) if f.startswith('packs.idx-'))
    return line


def same_second_incremental(max_attempts=6, wanted=2):
    """TLC's counterexample of MC_BackupDev_IncQuickCheck on the real code: a previous backup, then an object is added,
    packed and cleaned, then an incremental backup whose index dump falls into the same second as the previous one (rsync's
    quick check compares size and whole seconds).  Run alone (before the parallel part) so that the timing is reachable;
    an attempt counts when the two dumps really fell into the same second."""
    import time  # pylint: disable=import-outside-toplevel
    common.import_lib()
    from disk_objectstore import Container, backup_utils  # pylint: disable=import-outside-toplevel

    table = contents()
    lines = []
    hits = 0
    for attempt in range(max_attempts + 1):
        # the last attempt does not depend on the load of the machine: the second dump is given the modification time of
        # the first one (what "dumped within the same second" means to rsync), unless the timing was reached for real
        emulate = attempt == max_attempts
        if hits >= wanted or (emulate and hits > 0):
            break
        with common.scratch('bks') as work:
            folder = os.path.join(work, 'c')
            before = build(folder)
            dest = os.path.join(work, 'dest')
            os.makedirs(dest)
            stamps = []
            real_dump = backup_utils._sqlite_backup  # pylint: disable=protected-access

            def dump(src, dst, stamps=stamps, real_dump=real_dump, emulate=emulate):
                out = real_dump(src, dst)
                if emulate and stamps:
                    os.utime(dst, (stamps[0], stamps[0]))
                stamps.append(os.stat(dst).st_mtime)
                return out

            backup_utils._sqlite_backup = dump  # pylint: disable=protected-access
            failed = ''
            try:
                manager = backup_utils.BackupManager(dest)
                source = Container(folder)
                other = Container(folder)
                while time.time() % 1 > 0.03:
                    pass
                path_type = type(source.get_folder())
                backup_utils.backup_container(manager, source, path_type(os.path.join(dest, 'b0')), None)
                other.add_object(table['k6'])
                other.pack_all_loose()
                other.clean_storage()
                target = os.path.join(dest, 'b1')
                try:
                    backup_utils.backup_container(manager, source, path_type(target), path_type(os.path.join(dest, 'b0')))
                except backup_utils.BackupError as exc:
                    failed = str(exc)[:200]
                source.close()
                other.close()
            finally:
                backup_utils._sqlite_backup = real_dump  # pylint: disable=protected-access
            same = len(stamps) == 2 and int(stamps[0]) == int(stamps[1])
            hits += same
            line = {'script': 'same-second-incremental', 'placement': [], 'incremental': True, 'long_open_source': False,
                    'before': before + ['k6'], 'failed': bool(failed), 'error': failed, 'same_second': bool(same),
                    'attempt': attempt, 'same_second_emulated': bool(emulate)}
            if failed:
                line.update(obs={'loose': [], 'rows': [], 'packs': []}, views=[], listed=[], val='n/a')
            else:
                obs, views, listed, val = examine(target, table)
                line.update(obs=obs, views=views, listed=listed, val=val)
            lines.append(line)
    return lines, hits


INSIDE_PACKERS = {
    'NO-pp1': dict(mode='NO', perpack=True, do_fsync=True, clean=False),
    'YES-pp0-clean': dict(mode='YES', perpack=False, do_fsync=True, clean=True),
    'NO-pp1-nofsync': dict(mode='NO', perpack=True, do_fsync=False, clean=False),
    'AUTO-pp0-nofsync-clean': dict(mode='AUTO', perpack=False, do_fsync=False, clean=True),
}


def inside_job(job):
    """Backups taken while the packer is suspended after its n-th file-system / SQL step (placements *inside* the packing
    call, which the phase-boundary hooks cannot produce): for every n.  The scheduler of C04 is used: the packer is an
    actor whose every shared-state call is a yield point, the backup runs as one block while the packer is parked."""
    pname = job
    import shutil  # pylint: disable=import-outside-toplevel
    common.import_lib()
    from .. import sched, shim  # pylint: disable=import-outside-toplevel
    from disk_objectstore import CompressMode, Container, backup_utils  # pylint: disable=import-outside-toplevel
    shim.install()
    spec = INSIDE_PACKERS[pname]
    table = contents()
    lines = []

    def packer(folder):
        def body(_s):
            cont = Container(folder)
            try:
                cont.pack_all_loose(compress=CompressMode[spec['mode']], clean_loose_per_pack=spec['perpack'], do_fsync=spec['do_fsync'])
                if spec['clean']:
                    cont.clean_storage()
            finally:
                cont.close()
        return body

    with common.scratch('bki') as work:
        base = os.path.join(work, 'base')
        cont = Container(base)
        cont.init_container(pack_size_target=40, loose_prefix_len=2)
        cont.add_objects_to_pack([table['k5']], compress=False)
        for key in ('k1', 'k2', 'k3', 'k6', 'k7'):
            cont.add_object(table[key])
        cont.close()
        before = ['k5', 'k1', 'k2', 'k3', 'k6', 'k7']
        n_steps = None
        n = 0
        while n_steps is None or n <= n_steps:
            folder = os.path.join(work, f'run{n}')
            shutil.copytree(base, folder)
            dest = os.path.join(work, f'dest{n}')
            os.makedirs(dest)
            outcome = {}

            def backup(_folder, folder=folder, dest=dest, outcome=outcome):
                def body(_s):
                    source = Container(folder)
                    try:
                        manager = backup_utils.BackupManager(dest)
                        path_type = type(source.get_folder())
                        backup_utils.backup_container(manager, source, path_type(os.path.join(dest, 'b1')), None)
                    except backup_utils.BackupError as exc:
                        outcome['failed'] = str(exc)[:200]
                    finally:
                        source.close()
                return body

            sh = shim.SHIM
            sh.clear()
            sh.add_root(folder, 'c', 2, table)
            actors = [sched.Actor('P', packer(folder)), sched.Actor('B', backup(folder))]
            scheduler = sched.Scheduler(actors, [('P', n), ('B', None), ('P', None)])
            sh.handler = scheduler
            try:
                scheduler.run()
            finally:
                sh.clear()
            if n_steps is None:
                n_steps = actors[0].steps if n == 0 else n_steps
            crashed = [ev for ev in scheduler.trace if ev.get('e') == 'crashed']
            failed = outcome.get('failed', '') or (crashed[0]['msg'] if crashed else '')
            line = {'script': f'inside:{pname}', 'placement': [f'packer-step-{n}'], 'incremental': False, 'long_open_source': False,
                    'before': before, 'failed': bool(failed), 'error': failed}
            if failed:
                line.update(obs={'loose': [], 'rows': [], 'packs': []}, views=[], listed=[], val='n/a')
            else:
                obs, views, listed, val = examine(os.path.join(dest, 'b1'), table)
                line.update(obs=obs, views=views, listed=listed, val=val)
            lines.append(line)
            shutil.rmtree(folder, ignore_errors=True)
            shutil.rmtree(dest, ignore_errors=True)
            if n == 0:
                n_steps = actors[0].steps
            n += 1 if common.tier() == 'thorough' else 2
    return lines


def placements(n_steps):
    idx = range(len(POSITIONS))
    for combo in itertools.combinations_with_replacement(idx, n_steps):
        yield [POSITIONS[i] for i in combo]


DESIGN_CONFIGS = [('MC_Backup', True), ('MC_BackupInc', True), ('MC_BackupDev_IncQuickCheck', False), ('MC_BackupDev_LiveIndex', False), ('MC_BackupDev_IndexFirst', False),
                  ('MC_BackupDev_PacksFirst', False)]


def design(report):
    """DosBackup: every interleaving of the backup's phases (file-by-file loose copy, pack copied up to any length it had
    during the phase) with add / pack / clean / direct-add steps.  The deviations (another phase order, copying the live
    index at the end) must break BackupValid, otherwise the model would not be able to see the defect class."""
    out = []
    for cfg, must_hold in DESIGN_CONFIGS:
        res = tlc.run('MC_Backup', cfg + '.cfg', workers=8, timeout=1200)
        if res.timeout or (res.error_lines and not res.violated):
            tlc.machinery_failure(res, cfg)
        held = not res.violated
        out.append({'config': cfg, 'expected': 'holds' if must_hold else 'violated', 'held': held, **res.summary()})
        if must_hold and not held:
            print(f'DESIGN-COUNTEREXAMPLE property={report.prop} config={cfg} invariant={res.violated}')
        if not must_hold and held:
            print(f'MODEL-TOO-WEAK property={report.prop} config={cfg}: the deviation no longer breaks BackupValid')
        report.add('states', res.distinct)
        report.add('transitions', res.generated)
    report.set('design_model', out)


def conformance(lines, report):
    """BackupConf: every completed real backup, as the sequence of DosBackup actions it really performed."""
    traces = [l for l in lines if not l['failed'] and 'lines' in l]
    with common.scratch('bkc') as work:
        trace_file = os.path.join(work, 'conf.ndjson')
        with open(trace_file, 'w', encoding='utf8') as handle:
            for line in traces:
                handle.write(json.dumps({'lines': line['lines'], 'loose0': line['loose0'], 'packed0': line['packed0']}) + '\n')
        with open(os.path.join(work, 'MCBackupConf.tla'), 'w', encoding='utf8') as handle:
            names = ', '.join(f'"{k}"' for k in UNIVERSE)
            handle.write('---- MODULE MCBackupConf ----\nEXTENDS BackupConf\n'
                         f'MCKeys == {{{names}}}\nOrderCode == <<"loose", "dump", "idx", "packs", "rest">>\nNoPrev == {{}}\n====\n')
        with open(os.path.join(work, 'MCBackupConf.cfg'), 'w', encoding='utf8') as handle:
            handle.write('SPECIFICATION CSpec\nCONSTANTS\n  Keys <- MCKeys\n  Loose0 <- MCKeys\n  Packed0 <- OrderCode\n'
                         '  AddKeys <- MCKeys\n  DirectKeys <- MCKeys\n  PackRounds = 9\n  CleanRounds = 9\n  Order <- OrderCode\n'
                         '  RestCopiesLiveIndex = FALSE\n  PrevIdx <- NoPrev\n  Incremental = FALSE\n  IdxByChecksum = TRUE\nCONSTRAINT Track\nPOSTCONDITION Report\nCHECK_DEADLOCK FALSE\n')
        res = tlc.run('MCBackupConf', 'MCBackupConf.cfg', workers=1, timeout=900, cwd=work, env={'TRACE_FILE': trace_file},
                      java_opts=[f'-DTLA-Library={common.SPEC}'])
    reached = {int(t): (int(got), int(total)) for t, got, total in re.findall(r'<<"REACHED", (\d+), (\d+), (\d+)>>', res.output)}
    if res.timeout or res.error_lines or len(reached) != len(traces):
        tlc.machinery_failure(res, 'BackupConf')
    stuck = []
    for t, (got, total) in sorted(reached.items()):
        if got < total:
            trace = traces[t - 1]
            stuck.append({'script': trace['script'], 'placement': trace['placement'], 'incremental': trace['incremental'],
                          'at': got, 'line': trace['lines'][got], 'lines': [e['e'] for e in trace['lines']]})
    for item in stuck[:3]:
        print(f"MODEL-DRIFT property={report.prop} at=backup {item['script']} {item['placement']} line {item['at']} "
              f"{json.dumps(item['line'])} of {item['lines']}: not an enabled DosBackup action (phase order, what the last "
              'phase copies, or the backup\'s final content differ from the model)')
    report.set('conformance', {'spec': 'BackupConf', 'backups': len(traces), 'conform': len(traces) - len(stuck),
                               'stuck': stuck[:5], **res.summary()})
    report.add('states', res.distinct)
    report.add('transitions', res.generated)


def check_C15(report: common.Report):
    common.import_lib()
    thorough = report.tier == 'thorough'
    rng = common.rng('C15')
    jobs = []
    for name, steps in SCRIPTS.items():
        every = list(placements(len(steps)))
        if not thorough and len(every) > 60:
            every = rng.sample(every, 60)
        for incremental in (False, True):
            subset = every if (thorough or not incremental) else rng.sample(every, min(25, len(every)))
            for placement in subset:
                jobs.append((name, placement, incremental, len(jobs), len(jobs) % 2 == 1))
    special, same_second = same_second_incremental()
    lines = common.pmap(run_backup, jobs) + special
    inside = [line for part in common.pmap(inside_job, list(INSIDE_PACKERS)) for line in part]
    lines += inside
    with common.scratch('bkm') as work:
        trace_file = os.path.join(work, 'backup.ndjson')
        with open(trace_file, 'w', encoding='utf8') as handle:
            for line in lines:
                handle.write(json.dumps(line) + '\n')
        cfg = os.path.join(work, 'BackupTrace.cfg')
        with open(cfg, 'w', encoding='utf8') as handle:
            handle.write('SPECIFICATION Spec\nINVARIANT C15_Complete\nINVARIANT C15_ExposedReadCorrectly\n'
                         'INVARIANT C15_ValidateClean\nINVARIANT C15_IndexOK\nCHECK_DEADLOCK FALSE\n')
        res = tlc.run('BackupTrace', cfg, workers=1, timeout=900, args=['-continue'], env={'TRACE_FILE': trace_file})
    hits = []
    for chunk in re.split(r'(?=Error: Invariant \w+ is violated)', res.output):
        m = re.match(r'Error: Invariant (\w+) is violated', chunk)
        ls = re.findall(r'(?m)^l = (\d+)\s*$', chunk)   # anchored: the final statistics contain "val = 9.2E-15"
        if m and ls:
            hits.append((m.group(1), int(ls[-1])))
    if res.timeout or (res.error_lines and not hits) or res.distinct != len(lines):
        print(f'monitor states {res.distinct} expected {len(lines)}')
        tlc.machinery_failure(res, 'BackupTrace monitor')
    seen = set()
    for inv, line_no in hits:
        line = lines[line_no - 1]
        key = (inv, line['script'], line['incremental'])
        if key in seen:
            continue
        seen.add(key)
        bad = [v for v in line['views'] if v['cls'] not in ('OK', 'NotExistent') or (v['k'] in line['before'] and v['cls'] != 'OK')]
        if line['script'].startswith('inside:'):
            report.violation({'invariant': inv, 'script': line['script']},
                             {'driver': 'backup', 'script': line['script'], 'placement': line['placement']},
                             f"{inv}: backup taken while the packer {line['script'][7:]} is suspended at {line['placement'][0]} "
                             f"(of its file-system / SQL steps): val={line['val']} bad={bad} listed={line['listed']} "
                             f"obs={json.dumps(line['obs'])[:500]}")
            continue
        if line['script'] == 'same-second-incremental':
            report.violation({'invariant': inv, 'script': line['script']}, {'driver': 'backup', 'script': line['script']},
                             f"{inv}: a backup, then add + pack_all_loose + clean_storage of k6, then an incremental backup whose index "
                             f"dump falls into the same second as the previous one (same_second={line['same_second']}): the new backup "
                             f"carries the previous backup's index: bad={bad} val={line['val']} "
                             f"rows={[r['k'] for r in line['obs']['rows']]} loose={[r['k'] for r in line['obs']['loose']]}")
            continue
        report.violation({'invariant': inv, 'script': line['script'], 'incremental': line['incremental']},
                         {'driver': 'backup', 'script': line['script'], 'placement': line['placement'], 'incremental': line['incremental'],
                          'long_open_source': line['long_open_source']},
                         f"{inv}: backup with steps {SCRIPTS[line['script']]} placed at {line['placement']} "
                         f"(incremental={line['incremental']}): val={line['val']} bad={bad} listed={line['listed']} "
                         f"side files={line.get('extra_files')} obs={json.dumps(line['obs'])[:500]}")
    failed = sum(1 for l in lines if l['failed'])
    conformance(lines, report)
    design(report)
    report.set('evaluations', len(lines))
    report.set('distinct_nontrivial', len(lines) - failed)
    report.set('backups_taken', len(lines))
    report.set('backups_that_failed_outside_property', failed)
    report.set('incremental_backups_with_both_dumps_in_the_same_second', same_second)
    report.set('backups_inside_the_packing_call', len(inside))
    report.set('traces_validated_against_impl', len(lines))
    report.add('states', res.distinct)
    report.add('transitions', res.generated)
    report.set('monitor', res.summary())
    report.set('rule', 'one backup per (script of concurrent steps, order-preserving placement of the steps at the 6 boundaries of '
                       'the copy phases, full/incremental); distinct = backups that completed')
    report.sample({k: v for k, v in lines[0].items() if k != 'obs'})
    report.assumptions.append('steps are placed at the boundaries between rsync invocations and around the SQLite dump, not '
                              'inside the copy of a single phase')


def replay(data) -> int:
    rep = data['replay']
    if str(rep.get('script', '')).startswith('inside:'):
        for line in inside_job(rep['script'][7:]):
            if line['placement'] == rep.get('placement'):
                print({k: v for k, v in line.items() if k not in ('obs',)})
        return 0
    if rep.get('script') == 'same-second-incremental':
        lines, hits = same_second_incremental()
        for line in lines:
            print({k: v for k, v in line.items() if k not in ('obs', 'listed')})
        print('attempts with both dumps in the same second:', hits)
        return 0
    line = run_backup((rep['script'], rep['placement'], rep['incremental'], 0, rep.get('long_open_source', False)))
    print({k: v for k, v in line.items() if k != 'obs'})
    return 0
