"""C16 - bulk operations do not depend on batch size or internal lookup strategy; sorted-merge helpers.

(1) Merge.tla (a transcription of detect_where_sorted) is model-checked for all pairs of sorted duplicate-free
    sequences over 1..5 and for all pairs of sequences of length <= 3 over 1..3; TLC's terminal states (inputs, the
    yielded classification, accepted/rejected) are replayed on the real helpers, call by call (spec -> code).
(2) Bulk calls on containers with loose / packed / both / missing keys are recorded for request lists of sizes on both
    sides of every internal threshold (thresholds at their defaults and lowered from the harness) and TLC checks
    "bulk = pointwise over the distinct keys, each once" on every recorded call (BulkTrace.tla).
"""
from __future__ import annotations

import hashlib
import itertools
import json
import os
import re

from .. import common, tlc


def merge_replay(report):
    from disk_objectstore import utils  # pylint: disable=import-outside-toplevel

    cases = 0
    states = transitions = 0
    for cfg in ('MC_Merge_Sorted.cfg', 'MC_Merge_Any.cfg'):
        graph_states, _edges, _inits, res = tlc.dump_graph('MC_Merge', cfg, workers=1, timeout=600)
        if not res.ok:
            tlc.machinery_failure(res, f'Merge model {cfg}')
        states += res.distinct
        transitions += res.generated
        for state in graph_states.values():
            if state['pc'] not in ('done', 'error'):
                continue
            left, right = list(state['L']), list(state['R'])
            expected = [(item[0], item[1]) for item in state['out']]
            got = []
            outcome = 'done'
            try:
                for item, where in utils.detect_where_sorted(iter(left), iter(right)):
                    got.append((item, {'LEFTONLY': 'L', 'BOTH': 'B', 'RIGHTONLY': 'R'}[where.name]))
            except ValueError:
                outcome = 'error'
            except Exception as exc:  # noqa pylint: disable=broad-except
                outcome = f'raised:{type(exc).__name__}'
            cases += 1
            report.count(('merge', tuple(left), tuple(right)))
            if outcome != state['pc'] or got != expected:
                report.violation({'helper': 'detect_where_sorted', 'outcome': outcome},
                                 {'driver': 'merge', 'left': left, 'right': right},
                                 f'detect_where_sorted({left}, {right}): real {outcome} {got}, specification {state["pc"]} {expected}')
            if state['pc'] == 'done':
                # set algebra and merge_sorted
                merged = list(utils.merge_sorted(iter(left), iter(right)))
                if merged != sorted(set(left) | set(right)):
                    report.violation({'helper': 'merge_sorted'}, {'driver': 'merge', 'left': left, 'right': right},
                                     f'merge_sorted({left}, {right}) = {merged}')
                # with a left_key
                pairs = [(x, f'v{x}') for x in left]
                got2 = [(item[0] if isinstance(item, tuple) else item, where.name[0])
                        for item, where in utils.detect_where_sorted(iter(pairs), iter(right), left_key=lambda t: t[0])]
                if got2 != expected:
                    report.violation({'helper': 'detect_where_sorted(left_key)'}, {'driver': 'merge', 'left': left, 'right': right},
                                     f'left_key variant: {got2} vs {expected}')
    # chunk_iterator
    for n in range(0, 12):
        for size in (1, 2, 3, 5, 12):
            chunks = list(utils.chunk_iterator(iter(range(n)), size))
            flat = [x for c in chunks for x in c]
            if flat != list(range(n)) or any(len(c) > size or not c for c in chunks) or any(len(c) < size for c in chunks[:-1]):
                report.violation({'helper': 'chunk_iterator'}, {'driver': 'chunk', 'n': n, 'size': size},
                                 f'chunk_iterator(range({n}), {size}) = {chunks}')
            cases += 1
    report.add('states', states)
    report.add('transitions', transitions)
    report.set('merge_cases_replayed', cases)
    return cases


def _contents(n):
    return [b'obj-%05d-' % i + bytes([i % 251]) * (i % 7) for i in range(n)]


def build(folder, n_objects):
    from disk_objectstore import Container  # pylint: disable=import-outside-toplevel
    cont = Container(folder)
    cont.init_container(pack_size_target=10 ** 9, loose_prefix_len=2)
    data = _contents(n_objects)
    forms = {}
    packed = [d for i, d in enumerate(data) if i % 4 in (1, 2)]
    packedz = [d for i, d in enumerate(data) if i % 4 == 3]
    if packed:
        cont.add_objects_to_pack(packed, compress=False)
    if packedz:
        cont.add_objects_to_pack(packedz, compress=True)
    for i, d in enumerate(data):
        key = hashlib.sha256(d).hexdigest()
        if i % 4 == 0 or i % 8 == 2:
            cont.add_object(d)
        forms[key] = i
    return cont, data, forms


def record_calls(cont, data, requests, label):
    """Run the bulk calls for every request list and the single-key calls for the distinct keys."""
    from disk_objectstore.exceptions import NotExistent  # pylint: disable=import-outside-toplevel

    by_key = {hashlib.sha256(d).hexdigest(): d for d in data}
    lines = []

    def single_has(k):
        return 'PRESENT' if cont.has_object(k) else 'MISSING'

    def single_meta(k):
        try:
            meta = cont.get_object_meta(k)
            return f'{meta.type.value}:{meta.size}:{bool(meta.pack_compressed)}:{meta.pack_length}'
        except NotExistent:
            return 'MISSING'

    def single_content(k):
        try:
            return hashlib.sha1(cont.get_object_content(k)).hexdigest()[:12]
        except NotExistent:
            return 'MISSING'

    def raised(exc):
        # a bulk call that raises is an outcome like any other (the single-key answers decide whether it is a violation)
        return [{'k': '?', 'w': 'missing', 'v': f'RAISED:{type(exc).__name__}'}]

    def guarded(func, key):
        try:
            return func(key)
        except Exception as exc:  # noqa pylint: disable=broad-except
            return f'RAISED:{type(exc).__name__}'

    for req in requests:
        distinct = list(dict.fromkeys(req))
        try:
            flags = cont.has_objects(list(req))
            bulk = [{'k': k, 'v': 'PRESENT'} for k in dict.fromkeys(k for k, f in zip(req, flags) if f)]
        except Exception as exc:  # noqa pylint: disable=broad-except
            flags, bulk = [], raised(exc)
        lines.append({'call': 'has', 'label': label, 'req': req, 'skip': True, 'bulk': bulk,
                      'single': [{'k': k, 'v': guarded(single_has, k)} for k in distinct], 'flags': [bool(f) for f in flags]})
        for skip in (True, False):
            try:
                metas = list(cont.get_objects_meta(list(req), skip_if_missing=skip))
                bulk = [{'k': k, 'w': m.type.value, 'v': 'MISSING' if m.type.value == 'missing' else
                         f'{m.type.value}:{m.size}:{bool(m.pack_compressed)}:{m.pack_length}'} for k, m in metas]
            except Exception as exc:  # noqa pylint: disable=broad-except
                bulk = raised(exc)
            lines.append({'call': 'meta', 'label': label, 'req': req, 'skip': skip, 'bulk': bulk,
                          'single': [{'k': k, 'v': guarded(single_meta, k)} for k in distinct], 'flags': []})
            entries = []
            try:
                with cont.get_objects_stream_and_meta(list(req), skip_if_missing=skip) as triplets:
                    for k, stream, meta in triplets:
                        entries.append({'k': k, 'w': meta.type.value,
                                        'v': 'MISSING' if stream is None else hashlib.sha1(stream.read()).hexdigest()[:12]})
            except Exception as exc:  # noqa pylint: disable=broad-except
                entries += raised(exc)
            lines.append({'call': 'streams', 'label': label, 'req': req, 'skip': skip, 'bulk': entries,
                          'single': [{'k': k, 'v': guarded(single_content, k)} for k in distinct], 'flags': []})
            try:
                got = cont.get_objects_content(list(req), skip_if_missing=skip)
                bulk = [{'k': k, 'v': 'MISSING' if v is None else hashlib.sha1(v).hexdigest()[:12]} for k, v in got.items()]
            except Exception as exc:  # noqa pylint: disable=broad-except
                bulk = raised(exc)
            lines.append({'call': 'content', 'label': label, 'req': req, 'skip': skip, 'bulk': bulk,
                          'single': [{'k': k, 'v': guarded(single_content, k)} for k in distinct], 'flags': []})
    del by_key
    return lines


def request_lists(rng, present, absent, sizes):
    reqs = []
    for size in sizes:
        for _ in range(3):
            pool = present + absent
            req = [rng.choice(pool) for _ in range(size)]
            reqs.append(req)
        if size >= 2:
            req = [rng.choice(present) for _ in range(size - 1)]
            reqs.append(req + [req[0]])  # a repetition far from its first occurrence
            reqs.append(sorted(req + [absent[0]]))
        if size >= 4:
            # many keys that are not found anywhere (the retry lookup takes its own strategy decision) next to packed ones
            half = size // 2
            reqs.append(rng.sample(present, min(half, len(present))) + absent[:size - half])
            reqs.append(absent[:size - 1] + [rng.choice(present)])
    return reqs


def maintenance_same(workdir, thresholds):
    """pack / clean / delete / import under given thresholds: returns the raw final state (sorted listing + rows)."""
    from disk_objectstore import Container  # pylint: disable=import-outside-toplevel
    from .. import project  # pylint: disable=import-outside-toplevel

    old = (Container._IN_SQL_MAX_LENGTH, Container._MAX_CHUNK_ITERATE_LENGTH)  # pylint: disable=protected-access
    Container._IN_SQL_MAX_LENGTH, Container._MAX_CHUNK_ITERATE_LENGTH = thresholds  # pylint: disable=protected-access
    try:
        folder = os.path.join(workdir, f'm{thresholds[0]}_{thresholds[1]}')
        cont, data, _forms = build(os.path.join(folder, 'c'), 14)
        cont.pack_all_loose()
        cont.clean_storage()
        extra = [b'extra-%d' % i for i in range(7)]
        for d in extra[:5]:
            cont.add_object(d)
        cont.pack_all_loose(clean_loose_per_pack=True)
        keys = [hashlib.sha256(d).hexdigest() for d in data]
        deleted = cont.delete_objects(keys[:6] + ['0' * 64] + keys[2:4])
        src = Container(os.path.join(folder, 's'))
        src.init_container()
        for d in extra + data[:9]:
            src.add_object(d)
        src.pack_all_loose()
        wanted = [hashlib.sha256(d).hexdigest() for d in extra + data[:9]] + ['1' * 64]
        mapping = cont.import_objects(wanted + wanted[:3], src)
        src.close()
        listing = sorted(cont.list_all_objects())
        cont.close()
        state = project.project(os.path.join(folder, 'c'))
        summary = {'listing': listing, 'deleted': sorted(deleted), 'mapping': sorted(mapping.items()),
                   'rows': sorted((r['hashkey'], r['size'], r['compressed']) for r in state['rows']),
                   'loose': sorted(state['loose'])}
    finally:
        Container._IN_SQL_MAX_LENGTH, Container._MAX_CHUNK_ITERATE_LENGTH = old  # pylint: disable=protected-access
    return summary


BULK_CONFIGS = [('MC_Bulk_in1', None), ('MC_Bulk_quiet', None), ('MC_Bulk_in2_skip', None), ('MC_Bulk_in2_noskip', None), ('MC_Bulk_scan', None),
                ('MC_BulkDev_RequestList', 'EachKeyOnce'), ('MC_BulkDev_RetryDup', 'EachKeyOnce'), ('MC_BulkDev_NoRetry', 'Pointwise')]


def design(report):
    """Bulk.tla: the lookup generator transcribed (IN-chunks / sorted scan, loose pass, retry on a fresh session, missing
    keys), all request sequences of length <= 4 over {packed, packed since the snapshot, loose, missing}."""
    out = []
    for cfg, expect in BULK_CONFIGS:
        res = tlc.run('MC_Bulk', cfg + '.cfg', workers=2, timeout=600)
        if res.timeout or (res.error_lines and not res.violated):
            tlc.machinery_failure(res, cfg)
        out.append({'config': cfg, 'expected': expect or 'holds', **res.summary()})
        if expect is None and res.violated:
            print(f'DESIGN-COUNTEREXAMPLE property={report.prop} config={cfg} invariant={res.violated}')
            raise SystemExit(2)
        if expect is not None and expect not in res.violated:
            print(f'MACHINERY-FAILURE: deviation {cfg} no longer violates {expect}')
            raise SystemExit(2)
        if expect is None:
            report.add('states', res.distinct)
            report.add('transitions', res.generated)
    report.set('design_model_bulk', out)


def check_C16(report: common.Report):
    common.import_lib()
    from disk_objectstore import Container  # pylint: disable=import-outside-toplevel

    thorough = report.tier == 'thorough'
    rng = common.rng('C16')
    merge_replay(report)
    design(report)
    lines = []
    defaults = (Container._IN_SQL_MAX_LENGTH, Container._MAX_CHUNK_ITERATE_LENGTH)  # pylint: disable=protected-access
    with common.scratch('bk') as work:
        cont, data, _forms = build(os.path.join(work, 'c'), 24)
        present = [hashlib.sha256(d).hexdigest() for d in data]
        absent = [hashlib.sha256(b'absent-%d' % i).hexdigest() for i in range(14)]
        sizes = [0, 1, 2, 3, 4, 5, 9, 13]
        for thresholds in (defaults, (2, 4), (3, 1000), (1, 2), (1000, 3)):
            Container._IN_SQL_MAX_LENGTH, Container._MAX_CHUNK_ITERATE_LENGTH = thresholds  # pylint: disable=protected-access
            try:
                lines += record_calls(cont, data, request_lists(rng, present, absent, sizes), f'thr{thresholds}')
            finally:
                Container._IN_SQL_MAX_LENGTH, Container._MAX_CHUNK_ITERATE_LENGTH = defaults  # pylint: disable=protected-access
        cont.close()
        # real thresholds crossed once: a request longer than 950 with far-apart repetitions, and (thorough) > 9500
        big_n = 10100 if thorough else 2100
        cont, data, _forms = build(os.path.join(work, 'big'), big_n)
        present = [hashlib.sha256(d).hexdigest() for d in data]
        req = present[:1900] + absent + present[:30]
        rng.shuffle(req)
        reqs = [req, present[:960] + present[:5]]
        if thorough:
            reqs.append(present[:9600] + absent + present[100:110])
        lines += record_calls(cont, data, reqs, 'real-thresholds')
        listed = list(cont.list_all_objects())
        lines.append({'call': 'maint', 'label': 'list-paging', 'req': [], 'skip': True, 'bulk': [], 'single': [], 'flags': [],
                      'same': sorted(listed) == sorted(set(present)) and len(listed) == len(set(present))})
        cont.close()
        base = maintenance_same(work, defaults)
        for thresholds in ((2, 4), (1, 2), (3, 1000), (1000, 3)):
            other = maintenance_same(work, thresholds)
            lines.append({'call': 'maint', 'label': f'maintenance thr{thresholds}', 'req': [], 'skip': True, 'bulk': [],
                          'single': [], 'flags': [], 'same': other == base,
                          'diff': '' if other == base else json.dumps({k: (base[k], other[k]) for k in base if base[k] != other[k]})[:600]})
        for line in lines:
            line.setdefault('same', True)
        trace_file = os.path.join(work, 'bulk.ndjson')
        with open(trace_file, 'w', encoding='utf8') as handle:
            for line in lines:
                handle.write(json.dumps(line) + '\n')
        cfg = os.path.join(work, 'BulkTrace.cfg')
        with open(cfg, 'w', encoding='utf8') as handle:
            handle.write('SPECIFICATION Spec\nINVARIANT C16_EachKeyOnce\nINVARIANT C16_BulkIsPointwise\n'
                         'INVARIANT C16_FlagsPositional\nINVARIANT C16_SameOutcome\nINVARIANT Conf_PhaseOrder\nCHECK_DEADLOCK FALSE\n')
        res = tlc.run('BulkTrace', cfg, workers=1, timeout=1500, args=['-continue'], env={'TRACE_FILE': trace_file})
    hits = []
    for chunk in re.split(r'(?=Error: Invariant \w+ is violated)', res.output):
        m = re.match(r'Error: Invariant (\w+) is violated', chunk)
        ls = re.findall(r'(?m)^l = (\d+)\s*$', chunk)   # anchored: the final statistics contain "val = 9.2E-15"
        if m and ls:
            hits.append((m.group(1), int(ls[-1])))
    if res.timeout or (res.error_lines and not hits) or res.distinct != len(lines):
        print(f'monitor states {res.distinct} expected {len(lines)}')
        tlc.machinery_failure(res, 'BulkTrace monitor')
    seen = set()
    for inv, line_no in hits:
        line = lines[line_no - 1]
        key = (inv, line['call'], line['label'])
        if key in seen:
            continue
        seen.add(key)
        short = {k: (v if k != 'req' else [x[:6] for x in v][:20]) for k, v in line.items() if k not in ('single', 'bulk')}
        if inv.startswith('Conf_'):
            print(f"MODEL-DRIFT property=C16 at=bulk call {short}: {inv}: the order of the results "
                  f"{[e.get('w') for e in line['bulk']][:20]} is not an output of Bulk.tla (packed, then loose, then missing)")
            report.note(f'model drift: {inv} on {short}')
            continue
        report.violation({'invariant': inv, 'call': line['call']}, {'driver': 'bulk', 'line': short},
                         f"{inv}: {short} bulk={[(e['k'][:6], e['v']) for e in line['bulk']][:12]} "
                         f"single={[(e['k'][:6], e['v']) for e in line['single']][:12]}")
    report.count(n=len(lines))
    for line in lines:
        report.count((line['call'], line['label'], len(line['req']), line['skip']))
    report.add('states', res.distinct)
    report.add('transitions', res.generated)
    report.set('traces_validated_against_impl', len(lines))
    report.set('bulk_calls_recorded', len(lines))
    report.set('monitor', res.summary())
    report.set('rule', 'merge helpers: every terminal state of the TLC graph of Merge.tla replayed on the real helper; bulk calls: '
                       'request lists of sizes {0,1,2,3,4,5,9,13} with repeats/absent keys x thresholds (default, lowered) x '
                       '{has, meta, streams, content} x skip_if_missing, plus one request crossing the real 950 (thorough: 9500) '
                       'thresholds; distinct = (call, thresholds, request size, skip)')
    report.sample({'line': {k: (v if k not in ('req', 'bulk', 'single') else str(v)[:300]) for k, v in lines[5].items()}})


def replay(data) -> int:
    print('replay: re-run ./check C16 (the inputs are enumerated deterministically)')
    return 0
