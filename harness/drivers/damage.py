"""C12 - validate() is clean on every reachable state (part i, seq histories) and never clean on a damaged one (part ii).

Part ii: a container with objects in every storage form is damaged in one place at a time (a bit of every byte of
every loose file and of every referenced pack byte, truncations, empty files, +-1 / flips on every field of every
index row); the ground truth (which objects became unreadable / different / size-inconsistent) is computed from the
raw projection; ``validate()`` is run through the library; TLC evaluates the rule of DamageTrace.tla on every line.
"""
from __future__ import annotations

import hashlib
import json
import os
import re
import shutil
import sqlite3

from .. import common, project, tlc
from . import seq


def build(folder):
    from disk_objectstore import Container  # pylint: disable=import-outside-toplevel
    table = dict(common.small_contents().table)
    table['k9'] = bytes(range(40, 90))
    table['k10'] = b'hello world, hello world, hello world'
    del table['k5'], table['k8']
    cont = Container(folder)
    cont.init_container(pack_size_target=80, loose_prefix_len=2)
    names = list(table)
    # the empty object (k4) is stored uncompressed (a zero-length entry), a one-byte object compressed
    first = [n for n in names[0:6] if n in ('k1', 'k2', 'k4')]
    second = [n for n in names[0:6] if n not in first]
    cont.add_objects_to_pack([table[n] for n in first], compress=False)
    cont.add_objects_to_pack([table[n] for n in second], compress=True)
    for n in names[6:]:
        cont.add_object(table[n])
    cont.add_object(table[names[0]])  # both loose and packed
    cont.close()
    return table


def effects(folder, table):
    """Ground truth for every key of the table, raw."""
    state = project.project(folder, with_bytes=True)
    out = []
    rows = {r['hashkey']: r for r in state['rows']}
    for name, data in table.items():
        key = hashlib.sha256(data).hexdigest()
        if key in rows:
            effect = _row_effect(rows[key], state['_blobs'].get(rows[key]['pack_id']), data)
        elif key in state['loose']:
            effect = 'same' if state['loose'][key]['tag'] == 'good' else 'different'
        else:
            effect = 'gone'
        out.append({'k': name, 'effect': effect})
    return out, state


def _row_effect(row, blob, expected):
    """What reading through the index yields, as any reader of the documented format would see it: the byte range
    clamped to the file, inflated when flagged (bytes after the end of the deflate stream are ignored)."""
    import zlib  # pylint: disable=import-outside-toplevel
    if blob is None or row['offset'] < 0 or row['length'] < 0:
        return 'unreadable'
    raw = blob[row['offset']:row['offset'] + row['length']]
    if row['compressed']:
        try:
            dec = zlib.decompressobj()
            got = dec.decompress(raw)
            if not dec.eof:
                return 'unreadable'
        except zlib.error:
            return 'unreadable'
    else:
        got = raw
    if got != expected:
        return 'different'
    if row['size'] != len(expected):
        return 'sizewrong'
    return 'same'


def run_validate(folder, table=None):
    """('clean' | 'issues' | 'raised', names of the contents the report mentions)."""
    import dataclasses  # pylint: disable=import-outside-toplevel
    from disk_objectstore import Container  # pylint: disable=import-outside-toplevel
    cont = Container(folder)
    try:
        issues = cont.validate()
        name_of = {hashlib.sha256(data).hexdigest(): name for name, data in (table or {}).items()}
        named = sorted({name_of.get(key, str(key)[:8]) for field in dataclasses.fields(issues) for key in getattr(issues, field.name)})
        return ('clean' if issues.is_valid() else 'issues'), named
    except Exception:  # noqa pylint: disable=broad-except
        return 'raised', []
    finally:
        cont.close()


def damages(base, table, thorough, rng):
    """Yield (description, function applied to a copy)."""
    state = project.project(base, with_bytes=True)
    bits = range(8) if thorough else None
    # loose files
    for key, path in project.list_loose(base, 2).items():
        rel = os.path.relpath(path, base)
        size = os.path.getsize(path)
        for pos in range(size):
            for bit in (bits if bits is not None else [rng.randrange(8)]):
                yield {'kind': 'loose-bit', 'target': key[:8], 'pos': pos, 'bit': bit}, ('flip', rel, pos, bit)
        for length in range(size):
            yield {'kind': 'loose-truncate', 'target': key[:8], 'pos': length, 'bit': 0}, ('truncate', rel, length, 0)
    # referenced pack bytes
    for row in state['rows']:
        rel = os.path.join('packs', str(row['pack_id']))
        for pos in range(row['offset'], row['offset'] + row['length']):
            for bit in (bits if bits is not None else [rng.randrange(8)]):
                yield {'kind': 'pack-bit', 'target': row['hashkey'][:8], 'pos': pos, 'bit': bit}, ('flip', rel, pos, bit)
    for pack_id, info in state['packs'].items():
        rel = os.path.join('packs', str(pack_id))
        for length in range(info['len']):
            yield {'kind': 'pack-truncate', 'target': str(pack_id), 'pos': length, 'bit': 0}, ('truncate', rel, length, 0)
    # index fields
    for row in state['rows']:
        for field, deltas in (('offset', (-1, 1, 7)), ('length', (-1, 1, 5)), ('size', (-1, 1, 1024)), ('compressed', ('flip',)),
                              ('pack_id', (1, 7))):
            for delta in deltas:
                yield ({'kind': f'row-{field}', 'target': row['hashkey'][:8], 'pos': 0 if delta == 'flip' else delta, 'bit': 0},
                       ('row', row['id'], field, delta))
        # boundary values: a field set to zero / to the value of a neighbouring entry
        for field in ('length', 'size', 'offset'):
            if row[field] != 0:
                yield {'kind': f'row-{field}-zero', 'target': row['hashkey'][:8], 'pos': 0, 'bit': 0}, ('row', row['id'], field, -row[field])


def apply(folder, action):
    kind = action[0]
    if kind == 'flip':
        _k, rel, pos, bit = action
        path = os.path.join(folder, rel)
        with open(path, 'r+b') as handle:
            handle.seek(pos)
            byte = handle.read(1)
            handle.seek(pos)
            handle.write(bytes([byte[0] ^ (1 << bit)]))
    elif kind == 'truncate':
        _k, rel, length, _ = action
        with open(os.path.join(folder, rel), 'r+b') as handle:
            handle.truncate(length)
    elif kind == 'row':
        _k, rowid, field, delta = action
        conn = sqlite3.connect(os.path.join(folder, 'packs.idx'))
        if delta == 'flip':
            conn.execute(f'UPDATE db_object SET {field} = 1 - {field} WHERE id = ?', (rowid,))
        else:
            conn.execute(f'UPDATE db_object SET {field} = {field} + ? WHERE id = ?', (delta, rowid))
        conn.commit()
        conn.close()


def _worker(job):
    base, table, items = job
    common.import_lib()
    lines = []
    with common.scratch('dm') as work:
        for index, (desc, action) in enumerate(items):
            folder = os.path.join(work, f'd{index}')
            shutil.copytree(base, folder)
            try:
                apply(folder, action)
                eff, _state = effects(folder, table)
                val, named = run_validate(folder, table)
            except sqlite3.IntegrityError:
                shutil.rmtree(folder, ignore_errors=True)
                continue
            lines.append({'damage': desc, 'effects': eff, 'val': val, 'named': named})
            shutil.rmtree(folder, ignore_errors=True)
    return lines


def check_C12(report: common.Report):
    common.import_lib()
    thorough = report.tier == 'thorough'
    # part i: no false positives on reachable states
    n, length = (240, 12) if not thorough else (3000, 25)
    seq.model_check(report, 3, 5, ['Inv_IndexOK'], [])
    seq.run_histories(report, 'C12', n, length, ['C12'], sim=(40 if not thorough else 600, 12))
    # part ii: no false negatives
    rng = common.rng('C12')
    with common.scratch('dmg') as work:
        base = os.path.join(work, 'base')
        table = build(base)
        items = list(damages(base, table, thorough, rng))
        eff0, _ = effects(base, table)
        val0, named0 = run_validate(base, table)
        lines = [{'damage': {'kind': 'none', 'target': '', 'pos': 0, 'bit': 0}, 'effects': eff0, 'val': val0, 'named': named0}]
        for part in common.pmap(_worker, [(base, table, chunk) for chunk in common.chunks(items, 32)]):
            lines += part
        trace_file = os.path.join(work, 'damage.ndjson')
        with open(trace_file, 'w', encoding='utf8') as handle:
            for line in lines:
                handle.write(json.dumps(line) + '\n')
        cfg = os.path.join(work, 'DamageTrace.cfg')
        with open(cfg, 'w', encoding='utf8') as handle:
            handle.write('SPECIFICATION Spec\nINVARIANT C12_NeverCleanOnDamage\nINVARIANT C12_BaselineClean\nINVARIANT C12_NamesTheObjectOrFails\nCHECK_DEADLOCK FALSE\n')
        res = tlc.run('DamageTrace', cfg, workers=1, timeout=1500, args=['-continue'], env={'TRACE_FILE': trace_file})
    hits = []
    for chunk in re.split(r'(?=Error: Invariant \w+ is violated)', res.output):
        m = re.match(r'Error: Invariant (\w+) is violated', chunk)
        ls = re.findall(r'(?m)^l = (\d+)\s*$', chunk)   # anchored: the final statistics contain "val = 9.2E-15"
        if m and ls:
            hits.append((m.group(1), int(ls[-1])))
    if res.timeout or (res.error_lines and not hits) or res.distinct != len(lines):
        print(f'monitor states {res.distinct} expected {len(lines)}')
        tlc.machinery_failure(res, 'DamageTrace monitor')
    seen = set()
    for inv, line_no in hits:
        line = lines[line_no - 1]
        hurt = [e for e in line['effects'] if e['effect'] != 'same']
        key = (inv, line['damage']['kind'], tuple(sorted({e['effect'] for e in hurt})))
        if key in seen:
            continue
        seen.add(key)
        report.violation({'invariant': inv, 'damage': line['damage']['kind'], 'effects': sorted({e['effect'] for e in hurt})},
                         {'driver': 'damage', 'damage': line['damage']},
                         f"{inv}: damage {line['damage']} makes {hurt} but validate() says {line['val']}")
    kinds = {}
    hurtful = 0
    for line in lines:
        kinds[line['damage']['kind']] = kinds.get(line['damage']['kind'], 0) + 1
        hurtful += any(e['effect'] != 'same' for e in line['effects'])
    report.add('evaluations', len(lines))
    report.set('distinct_nontrivial', report.coverage.get('distinct_nontrivial', 0) + hurtful)
    report.add('states', res.distinct)
    report.add('transitions', res.generated)
    report.add('traces_validated_against_impl', len(lines))
    report.set('damages', kinds)
    report.set('damages_that_hurt_some_object', hurtful)
    report.set('damage_monitor', res.summary())
    report.sample({'damage_line': lines[min(40, len(lines) - 1)]})
    report.assumptions.append('ground truth for a damaged container is the raw projection (index first, then loose), the order '
                              'in which the library itself resolves a key')


def replay(data) -> int:
    print('replay: damages are enumerated deterministically; re-run ./check C12', data['replay'])
    return 0
