"""Conformance of scheduled concurrent executions to the step-level model Dos (DosConf.tla); used by C04.

A mismatch is MODEL-DRIFT (reported, never a verdict).
"""
from __future__ import annotations

import json
import os
import re

from .. import common, shim, tlc
from . import conc

PACKED0 = ['k5']
LOOSE0 = ['k1', 'k2']
KEYS = ['k1', 'k2', 'k5', 'k7', 'k9']

WRITERS = {'w-new': ['k7'], 'w-dup': ['k1', 'k7'], 'w-dup-packed': ['k5', 'k7']}
READERS = {
    'r-bulk': ('bulk', ['k1', 'k2', 'k5', 'k9'], False), 'r-has': ('has', ['k1', 'k5', 'k7'], False),
    'r-single': ('single', ['k2'], False), 'r-meta': ('meta', ['k1', 'k2', 'k9'], False),
    'r-bulk-pinned': ('bulk', ['k1', 'k2', 'k7'], True), 'r-has-pinned': ('has', ['k1', 'k2', 'k9'], True),
}


def build(folder, seek=False):
    from disk_objectstore import Container  # pylint: disable=import-outside-toplevel
    cont = Container(folder)
    cont.init_container(pack_size_target=10 ** 9, loose_prefix_len=2)
    cont.add_objects_to_pack([conc.CONTENTS[k] for k in PACKED0])
    if seek:
        cont.add_objects_to_pack([conc.CONTENTS[SEEK_KEY]], compress=True)
    for k in LOOSE0:
        cont.add_object(conc.CONTENTS[k])
    cont.close()


SEEK_KEY = 'k8'


def seeker(folder, key=SEEK_KEY):
    """A reader that seeks backwards in a packed, compressed object: the stream re-loosens it (loosen_object) and opens the
    loose copy, retrying when a concurrent clean removed it."""
    def body(s):
        from disk_objectstore import Container  # pylint: disable=import-outside-toplevel
        cont = Container(folder)
        try:
            s.log(e='seekstart', k=key)
            try:
                with cont.get_object_stream(conc.KEY[key]) as stream:
                    stream.seek(-2, 2)
                    tail = stream.read()
                res = 'OK' if tail == conc.CONTENTS[key][-2:] else 'GARBAGE'
            except Exception as exc:  # noqa pylint: disable=broad-except
                res = type(exc).__name__
            s.log(e='seekret', res=res)
        finally:
            cont.close()
    return body


def translate(trace):
    """Recorded events -> lines of DosConf."""
    lines = []
    s_phase = 'start'
    seen_select = {'R': 0, 'P': 0}
    pinned_done = False
    packed = False
    pending_list = None
    p_events = [ev for ev in trace if ev['a'] == 'P']
    # observed packing order and cleaning set (read off later events of the packer)
    copy_order, clean_set, phase = [], [], 'pack'
    for ev in p_events:
        if ev['e'] == 'packed':
            phase = 'clean'
        elif ev['e'] == 'io' and ev['op'] == 'open' and ev['obj'].startswith('loose:') and phase == 'pack':
            copy_order.append(ev['obj'][6:])
        elif ev['e'] == 'io' and ev['op'] == 'unlink' and ev['obj'].startswith('loose:') and phase == 'clean':
            clean_set.append(ev['obj'][6:])
    cselect_emitted = False
    for ev in trace:
        actor = ev['a']
        if ev['e'] != 'io':
            if ev['e'] == 'ack':
                lines.append({'a': 'W', 't': 'ack', 'k': ev['k']})
            elif ev['e'] == 'pinned':
                pinned_done = True
                lines = [ln for ln in lines if ln['a'] != 'R']  # the pinning query happens before the modelled read
                seen_select['R'] = 0
            elif ev['e'] == 'readret':
                lines.append({'a': 'R', 't': 'ret', 'res': ev['res']})
            elif ev['e'] == 'seekret':
                lines.append({'a': 'S', 't': 'ret', 'r': ev['res']})
            elif ev['e'] == 'packed':
                if pending_list:
                    pending_list = None
                packed = True
                lines.append({'a': 'P', 't': 'packed'})
            elif ev['e'] == 'cleaned':
                if not cselect_emitted:
                    lines.append({'a': 'P', 't': 'cselect', 'S': []})
                lines.append({'a': 'P', 't': 'cleaned'})
            continue
        op, obj, kind, res = ev['op'], ev['obj'], ev.get('kind', ''), ev.get('res', '')
        if actor == 'W':
            if op == 'stat' and obj.startswith('loose:'):
                lines.append({'a': 'W', 't': 'exists', 'k': obj[6:], 'found': res == 'ok'})
            elif op == 'open' and obj.startswith('loose:'):
                lines.append({'a': 'W', 't': 'hash'})
            elif op == 'rename' and obj.startswith('loose:'):
                lines.append({'a': 'W', 't': 'rename', 'k': obj[6:]})
        elif actor == 'R':
            if op == 'sql' and kind == 'SELECT':
                seen_select['R'] += 1
                lines.append({'a': 'R', 't': 'select' if seen_select['R'] == 1 else 'refresh'})
            elif op in ('open', 'stat') and obj.startswith('loose:'):
                lines.append({'a': 'R', 't': 'loose', 'k': obj[6:], 'found': res == 'ok'})
        elif actor == 'S':
            if obj != f'loose:{SEEK_KEY}':
                continue
            found = res == 'ok'
            if op == 'stat' and s_phase == 'start':
                lines.append({'a': 'S', 't': 'exists', 'found': found})
                s_phase = 'open' if found else 'writing'
            elif op == 'stat' and s_phase == 'writing':
                lines.append({'a': 'S', 't': 'dest', 'found': found})
                s_phase = 'open' if found else 'rename'
            elif op == 'rename':
                lines.append({'a': 'S', 't': 'rename'})
                s_phase = 'open'
            elif op == 'open':
                lines.append({'a': 'S', 't': 'open', 'found': found})
                s_phase = 'done' if found else 'start'
        elif actor == 'P':
            if op == 'listdir' and obj.startswith('dir:loose') and not packed:
                if pending_list is None:
                    pending_list = len(lines)
                    lines.append({'a': 'P', 't': 'list'})
                else:
                    # the listing is not atomic: the model's atomic listing is placed at the last listdir
                    lines.pop(pending_list)
                    pending_list = len(lines)
                    lines.append({'a': 'P', 't': 'list'})
            elif op == 'sql' and kind == 'SELECT':
                seen_select['P'] += 1
                if not packed:
                    lines.append({'a': 'P', 't': 'select', 'todo': copy_order})
                else:
                    cselect_emitted = True
                    lines.append({'a': 'P', 't': 'cselect', 'S': clean_set})
            elif op == 'open' and obj.startswith('lock:'):
                lines.append({'a': 'P', 't': 'lock'})
            elif op == 'open' and obj.startswith('loose:'):
                lines.append({'a': 'P', 't': 'copy', 'k': obj[6:]})
            elif op == 'sql' and kind == 'INSERT':
                lines.append({'a': 'P', 't': 'insert'})
            elif op == 'write' and obj.startswith('pack:'):
                lines.append({'a': 'P', 't': 'flush'})
            elif op == 'fsync' and obj.startswith('pack:'):
                lines.append({'a': 'P', 't': 'fsync'})
            elif op == 'unlink' and obj.startswith('lock:'):
                lines.append({'a': 'P', 't': 'unlock'})
            elif op == 'sql' and kind == 'COMMIT':
                lines.append({'a': 'P', 't': 'commit'})
            elif op == 'unlink' and obj.startswith('loose:'):
                lines.append({'a': 'P', 't': 'cunlink' if packed else 'unlink', 'k': obj[6:]})
    for line in lines:
        for field, default in (('k', ''), ('found', False), ('todo', []), ('S', []), ('res', []), ('r', '')):
            line.setdefault(field, default)
    del pinned_done
    return lines


def group_job(job):
    wname, rname, perpack, count, seed = job
    common.import_lib()
    shim.install()
    rng = common.rng('concconf', wname, rname, perpack, seed)
    seek = rname == 's-seek'
    if seek:
        kind, wants, pinned = 'seek', [], False
        spec = [('W', lambda f: conc.writer(f, WRITERS[wname])), ('S', seeker), ('P', lambda f: conc.packer(f, 'NO', perpack))]
    else:
        kind, wants, pinned = READERS[rname]
        spec = [('W', lambda f: conc.writer(f, WRITERS[wname])), ('R', lambda f: conc.reader(f, kind, wants, pin=pinned)),
                ('P', lambda f: conc.packer(f, 'NO', perpack))]
    actors = [name for name, _ in spec]
    traces = []
    with common.scratch('cf') as work:
        base = os.path.join(work, 'base')
        os.makedirs(base)
        build(os.path.join(base, 'c'), seek)
        for index in range(count):
            segments = [(rng.choice(actors), rng.randint(1, 9)) for _ in range(rng.randint(2, 12))]
            if seek and index < 16:
                # the packer packs and cleans while the seeker is somewhere inside its re-loosening (for some of these the
                # loose copy vanishes between the rename and the open: the retry path)
                segments = [('S', 3 + index), ('P', 500), ('S', 500), ('W', 500)]
            if pinned:
                # 'long-open handle': its pinning query completes before anybody else starts (BEGIN + SELECT executed)
                segments = [('R', 3)] + segments
            _logical, trace, _steps = conc.execute(base, work, spec, segments, index)
            traces.append({'segments': segments, 'lines': translate(trace)})
        # TLC run for this configuration
        trace_file = os.path.join(work, 'conf.ndjson')
        with open(trace_file, 'w', encoding='utf8') as handle:
            for trace in traces:
                handle.write(json.dumps({'lines': trace['lines']}) + '\n')
        q = lambda xs: ', '.join(f'"{x}"' for x in xs)  # noqa
        with open(os.path.join(work, 'MCDosConf.tla'), 'w', encoding='utf8') as handle:
            handle.write('---- MODULE MCDosConf ----\nEXTENDS DosConf\n')
            handle.write(f'MCKeys == {{{q(KEYS + ([SEEK_KEY] if seek else []))}}}\nMCInitial == {{{q(LOOSE0)}}}\n'
                         f'MCPacked == <<{q(PACKED0 + ([SEEK_KEY] if seek else []))}>>\n')
            handle.write(f'MCAdds == <<{q(WRITERS[wname])}>>\nMCWants == {{{q(wants)}}}\n====\n')
        with open(os.path.join(work, 'MCDosConf.cfg'), 'w', encoding='utf8') as handle:
            handle.write('SPECIFICATION CSpec\nCONSTANTS\n  Keys <- MCKeys\n  Initial <- MCInitial\n  InitialPacked <- MCPacked\n'
                         '  WriterAdds <- MCAdds\n  ReaderWants <- MCWants\n'
                         f'  MaxRetries = 3\n  SeekKey = "{SEEK_KEY if seek else "none"}"\n'
                         f'  ReaderPinned = {"TRUE" if pinned else "FALSE"}\n  PerPack = {"TRUE" if perpack else "FALSE"}\n'
                         '  AllowCrash = FALSE\n  AllowPower = FALSE\n  AllowFault = FALSE\n  UnlinkBeforeCommit = FALSE\n'
                         '  CommitBeforeFlush = FALSE\n  NoFallback = FALSE\n  SkipPackFsync = FALSE\n  RenameBeforeFsync = FALSE\n'
                         'CONSTRAINT Track\nPOSTCONDITION Report\nINVARIANT ReadCorrect\nINVARIANT Recoverable\nINVARIANT SeekReadCorrect\n'
                         'CHECK_DEADLOCK FALSE\n')
        res = tlc.run('MCDosConf', 'MCDosConf.cfg', workers=1, timeout=900, cwd=work, env={'TRACE_FILE': trace_file},
                      java_opts=[f'-DTLA-Library={common.SPEC}'])
    reached = {int(t): (int(got), int(total)) for t, got, total in re.findall(r'<<"REACHED", (\d+), (\d+), (\d+)>>', res.output)}
    stuck = []
    for index, trace in enumerate(traces, 1):
        got, total = reached.get(index, (0, len(trace['lines'])))
        if got < total:
            stuck.append({'segments': trace['segments'], 'at': got, 'line': trace['lines'][got] if got < len(trace['lines']) else None,
                          'before': trace['lines'][max(0, got - 3):got]})
    bad = res.timeout or bool(res.error_lines) or not reached
    retries = sum(1 for trace in traces for ln in trace['lines'] if ln['a'] == 'S' and ln['t'] == 'open' and not ln['found'])
    return {'config': f'{wname}+{rname}+pp{int(perpack)}', 'traces': len(traces), 'stuck': stuck, 'states': res.distinct,
            'seek_retries': retries,
            'generated': res.generated, 'bad': bad, 'tail': res.output[-1500:] if bad else '', 'violated': res.violated}


def check(report: common.Report, per_config=None):
    thorough = report.tier == 'thorough'
    per_config = per_config or (120 if thorough else 25)
    jobs = []
    for wname in WRITERS:
        for rname in list(READERS) + ['s-seek']:
            for perpack in (True, False):
                if not thorough and (len(jobs) % 3):  # a third of the configurations in the quick tier
                    jobs.append(None)
                    continue
                jobs.append((wname, rname, perpack, per_config, common.seed()))
    jobs = [j for j in jobs if j]
    results = common.pmap(group_job, jobs, procs=12)
    total = drifting = states = retries = 0
    for result in results:
        if result['bad']:
            print('MACHINERY-FAILURE: DosConf run failed for', result['config'])
            print(result['tail'])
            raise SystemExit(2)
        total += result['traces']
        retries += result.get('seek_retries', 0)
        states += result['states']
        drifting += len(result['stuck'])
        for item in result['stuck'][:2]:
            print(f"MODEL-DRIFT property={report.prop} at={result['config']} schedule {item['segments']}: line {item['at'] + 1} "
                  f"{item['line']} after {item['before']}"[:600])
            report.note(f"model drift: Dos cannot follow {result['config']} at {item['line']}")
    report.add('states', states)
    report.set('step_conformance', {'executions': total, 'conforming': total - drifting, 'drifting': drifting,
                                    'configurations': len(jobs), 'seeker_open_retries_observed': retries})
    return drifting
