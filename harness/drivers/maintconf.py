"""Conformance of the maintenance operations to the step-level model DosMaint (used by C05 / C06 / C17).

Cases are defined in model terms (pre-state of pack 0 as a sequence of extents, live rows, loose files; operation and
arguments), realised on a real container, run under the interposition layer, and the recorded calls are compared by
TLC with the observable projection of the program DosMaint compiles for the case; the same cases are then
model-checked under Stop / PowerLoss.  A mismatch is MODEL-DRIFT (reported, not a verdict).
"""
from __future__ import annotations

import hashlib
import json
import os
import re

from .. import common, shim, tlc
from . import durable

KEYS = ['k1', 'k2', 'k3', 'k4']


UNIT = 10                     # bytes per size unit of the sized cases
SZS = {'k1': 1, 'k2': 2, 'k3': 3, 'k4': 1}
ONE = {k: 1 for k in KEYS}


def table(sz=None):
    if sz is None:
        small = common.small_contents()
        return common.Contents({'k1': small['k1'], 'k2': small['k2'], 'k3': small['k3'], 'k4': small['k6']})
    return common.Contents({k: (k.encode() * 40)[:sz[k] * UNIT] for k in KEYS})


PRE = {
    'PreDel': {'pack0': ['k1', 'k2', 'k3'], 'live': ['k1', 'k3'], 'loose': ['k4']},
    'PreLoose': {'pack0': [], 'live': [], 'loose': ['k1', 'k2', 'k3']},
    'PreBoth': {'pack0': ['k1'], 'live': ['k1'], 'loose': ['k1', 'k2']},
    'PreFull': {'pack0': ['k1', 'k2', 'k3', 'k4'], 'live': ['k1', 'k2', 'k3', 'k4'], 'loose': []},
    'PreAllDel': {'pack0': ['k1', 'k2'], 'live': [], 'loose': ['k3']},
    'PreNone': {'pack0': [], 'live': [], 'loose': []},
}


def cases():
    out = []
    for pre in ('PreDel', 'PreBoth', 'PreFull', 'PreAllDel'):
        out.append(('repack', pre, [], False, False))
    for pre in ('PreDel', 'PreBoth'):
        for ks in (['k1'], ['k4', 'k3'], ['k2', 'k1', 'k4']):
            out.append(('delete', pre, ks, False, False))
    for pre in ('PreDel', 'PreLoose', 'PreBoth'):
        for noholes in (False, True):
            for ks in (['k4'], ['k1', 'k4'], ['k1', 'k1', 'k4', 'k2'], ['k4', 'k1', 'k2', 'k4']):
                out.append(('addpack', pre, ks, noholes, False))
    for perpack in (False, True):
        out.append(('pack', 'PreLoose', None, False, perpack))
        out.append(('pack', 'PreBoth', None, False, perpack))
        out.append(('pack', 'PreDel', None, False, perpack))
    out.append(('clean', 'PreBoth', None, False, False))
    for pre in ('PreBoth', 'PreLoose'):
        for k in ('k1', 'k4'):
            out.append(('add', pre, [k], False, False))
    # roll-over to the next pack
    for pre in ('PreNone', 'PreBoth'):
        for noholes in (False, True):
            for ks in (['k2', 'k3', 'k4'], ['k1', 'k2', 'k1', 'k3']):
                out.append(('addpack', pre, ks, noholes, False, ONE, 2, 99))
    for perpack in (False, True):
        out.append(('pack', 'PreLoose', None, False, perpack, SZS, 3, 99))
    # import: memory budget, objects above the budget, roll-over, keys the destination already has
    for pre in ('PreNone', 'PreBoth'):
        for target in (3, 99):
            for budget in (1, 2, 3, 99):
                for ks in (['k1', 'k2', 'k3', 'k4'], ['k3', 'k4', 'k2']):
                    out.append(('import', pre, ks, False, False, SZS, target, budget))
    return out


def build(folder, pre, contents, pack_size_target=10 ** 9):
    from disk_objectstore import Container  # pylint: disable=import-outside-toplevel
    cont = Container(folder)
    cont.init_container(pack_size_target=pack_size_target, loose_prefix_len=2)
    spec = PRE[pre]
    if spec['pack0']:
        cont.add_objects_to_pack([contents[k] for k in spec['pack0']])
        dead = [k for k in spec['pack0'] if k not in spec['live']]
        if dead:
            cont.delete_objects([hashlib.sha256(contents[k]).hexdigest() for k in dead])
    for k in spec['loose']:
        cont.add_object(contents[k])
    cont.close()
    return {'loose': {k: ('good' if k in spec['loose'] else 'absent') for k in KEYS},
            'pack0': spec['pack0'], 'pack1': [], 'exists': [0] if spec['pack0'] else [],
            'idx': [{'k': k, 'p': 0, 'pos': i + 1} for i, k in enumerate(spec['pack0']) if k in spec['live']]}


def run_case(job):
    index, case = job
    op, pre, ks, noholes, perpack = case[:5]
    sz, target, budget = case[5:] if len(case) > 5 else (None, 99, 99)
    common.import_lib()
    from disk_objectstore import Container  # pylint: disable=import-outside-toplevel

    contents = table(sz)
    key = lambda k: hashlib.sha256(contents[k]).hexdigest()  # noqa
    sh = shim.install()
    with common.scratch('mc') as work:
        folder = os.path.join(work, 'c')
        model_pre = build(folder, pre, contents, 10 ** 9 if sz is None else target * UNIT)
        source = None
        if op == 'import':
            source = Container(os.path.join(work, 'src'))
            source.init_container(pack_size_target=10 ** 9, loose_prefix_len=2)
            source.add_objects_to_pack([contents[k] for k in ks])
        sh.clear()
        sh.add_root(folder, 'c', 2, contents)
        recorder = durable.Recorder(folder, contents)
        recorder.scan_initial()
        recorder.last_rows = recorder.rows_now()
        sh.handler = recorder
        cont = Container(folder)
        sh.enabled = True
        try:
            if op == 'repack':
                cont.repack()
            elif op == 'delete':
                cont.delete_objects([key(k) for k in ks])
            elif op == 'addpack':
                cont.add_objects_to_pack([contents[k] for k in ks], no_holes=noholes, no_holes_read_twice=False)
            elif op == 'pack':
                cont.pack_all_loose(clean_loose_per_pack=perpack)
            elif op == 'clean':
                cont.clean_storage()
            elif op == 'add':
                cont.add_object(contents[ks[0]])
            elif op == 'import':
                cont.import_objects([key(k) for k in ks], source, compress=False, target_memory_bytes=budget * UNIT)
        finally:
            sh.enabled = False
        cont.close()
        if source is not None:
            source.close()
        recorder.check_rows()
        rows_after = recorder.rows_now()
        sh.clear()
    events = []
    for line in recorder.lines:
        if line['e'] in ('write', 'fsync'):
            events.append(line['e'])
        elif line['e'] == 'trunc':
            events.append('trunc')
        elif line['e'] in ('bind', 'unbind'):
            events.append(f"{line['e']}:{line['name']}")
        elif line['e'] == 'rows':
            events.append('rows')
    if ks is None:
        if op == 'pack':     # the order in which the set of loose keys was packed: read off the new rows
            old = {r['k'] for r in model_pre['idx']}
            ks = [r['k'] for r in sorted(rows_after, key=lambda r: (r['pack'], r['off'])) if r['k'] not in old]
        else:                # clean: the order of the unlinks
            ks = [e.split(':')[-1] for e in events if e.startswith('unbind:loose:')]
    return {'name': f'{op}:{pre}:{"-".join(ks)}:nh{int(noholes)}:pp{int(perpack)}:t{target}:b{budget}', 'op': op, 'pre': model_pre,
            'ks': ks, 'noholes': noholes, 'perpack': perpack, 'events': events, 'sz': sz or ONE, 'target': target, 'budget': budget}


def check(report: common.Report):
    """Conformance + model checking of the recorded cases; returns the number of drifting cases."""
    lines = common.pmap(run_case, list(enumerate(cases())))
    with common.scratch('mcm') as work:
        trace_file = os.path.join(work, 'maint.ndjson')
        with open(trace_file, 'w', encoding='utf8') as handle:
            for line in lines:
                handle.write(json.dumps(line) + '\n')
        with open(os.path.join(work, 'MCMaintConf.tla'), 'w', encoding='utf8') as handle:
            handle.write('---- MODULE MCMaintConf ----\nEXTENDS MaintConf\nMCKeys == {"k1", "k2", "k3", "k4"}\n====\n')
        with open(os.path.join(work, 'MCMaintConf.cfg'), 'w', encoding='utf8') as handle:
            handle.write('SPECIFICATION Spec\nCONSTANTS\n  Keys <- MCKeys\n  Cases <- TraceCases\n  AllowPower = TRUE\n'
                         '  RepackCommitBeforeFsync = FALSE\n  RepackUnlinkOldFirst = FALSE\n  SeekBackWithoutTruncate = FALSE\n'
                         '  DeleteIndexFirst = FALSE\n  RepackNoIntermediateCommit = FALSE\n  ImportFsyncOnlyLast = FALSE\nINVARIANT Recoverable\nINVARIANT KeysUnique\nINVARIANT DurableVisible\n'
                         'INVARIANT Completed\n')
        res = tlc.run('MCMaintConf', 'MCMaintConf.cfg', workers=4, timeout=900, cwd=work, env={'TRACE_FILE': trace_file},
                      java_opts=[f'-DTLA-Library={common.SPEC}'])
    if res.timeout or res.error_lines:
        if res.violated:
            print(f'DESIGN-COUNTEREXAMPLE: DosMaint violates {res.violated} on a program compiled for a recorded case')
        tlc.machinery_failure(res, 'MaintConf')
    flat = re.sub(r'\s+', ' ', res.output)       # TLC wraps long tuples over several lines
    mismatches = re.findall(r'<< ?"MISMATCH", (\d+), "([^"]*)"', flat)
    listed = re.search(r'<< ?"MISMATCHES", \{([^}]*)\}', flat)
    if listed is None or len([x for x in listed.group(1).split(',') if x.strip()]) != len(mismatches):
        tlc.machinery_failure(res, 'MaintConf (cannot read the list of mismatches)')
    for index, name in mismatches[:10]:
        detail = re.search(r'<< ?"MISMATCH", %s, .*?>> >>' % index, flat)
        print(f'MODEL-DRIFT property={report.prop} at=maintenance case {name}: {detail.group(0)[:700] if detail else ""}')
        report.note(f'model drift: the calls recorded for maintenance case {name} are not the program DosMaint compiles')
    report.add('states', res.distinct)
    report.add('transitions', res.generated)
    report.set('maintenance_conformance', {'cases': len(lines), 'conforming': len(lines) - len(mismatches),
                                           'drifting': [name for _i, name in mismatches], **res.summary()})
    return len(mismatches)
