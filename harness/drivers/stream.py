"""C07 - every returned stream behaves like an in-memory file over the object.

spec -> code: TLC explores ``Stream.tla`` for N in {0, 1, 3} and dumps the labelled state graph.  Every path of
the graph up to a depth is a *program* (sequence of read/seek/tell calls) together with the outcomes the
specification allows.  Each program is run on a real stream in every storage form; after every call the real
outcome (bytes mapped to the interval of the object they come from, returned integer, exception, and the value of
``tell()``) must be one of the successors of the current graph node.  ``io.BytesIO`` is run through the same
oracle (the reference implementation must conform to the reference specification).
"""
from __future__ import annotations

import io
import itertools
import os

from .. import common, tlc


class Graph:
    """The state graph TLC computed for one N."""

    def __init__(self, n_units: int):
        self.n = n_units
        self.max_pos = 2 * n_units + 6
        states, edges, inits, res = tlc.dump_graph('MC_Stream', f'MC_Stream_N{n_units}.cfg', workers=1)
        if not res.ok or not states:
            tlc.machinery_failure(res, f'Stream graph dump N={n_units}')
        self.res = res
        self.states = states
        self.init = inits[0]
        self.succ: dict[str, dict[tuple, list[str]]] = {sid: {} for sid in states}
        for src, dst, _label in edges:
            last = states[dst]['last']
            call = (last['call'], last['a'], last['w'])
            self.succ[src].setdefault(call, []).append(dst)
        self.calls = sorted({call for table in self.succ.values() for call in table})
        self.n_edges = len(edges)

    def step(self, node: str, call: tuple, outcome: tuple, tell_after):
        """Return the successor node matching the real outcome, or None."""
        for dst in self.succ[node].get(call, []):
            state = self.states[dst]
            last = state['last']
            if last['res'] != outcome[0]:
                continue
            if outcome[0] == 'bytes':
                lo, hi = outcome[1], outcome[2]
                if lo == hi:  # empty read: any empty interval
                    if last['lo'] != last['hi']:
                        continue
                elif (last['lo'], last['hi']) != (lo, hi):
                    continue
            elif outcome[0] == 'int' and last['lo'] != outcome[1]:
                continue
            if state['pos'] != tell_after:
                continue
            return dst
        return None

    def allowed(self, node: str, call: tuple):
        out = []
        for dst in self.succ[node].get(call, []):
            state = self.states[dst]
            last = state['last']
            out.append({'res': last['res'], 'lo': last['lo'], 'hi': last['hi'], 'tell_after': state['pos']})
        return out


def unit_content(index: int, n_units: int, unit: int) -> bytes:
    """Content number ``index``: every byte value distinct (small units) or pseudo-random (large units)."""
    length = n_units * unit
    if unit <= 8:
        base = 16 + index * 40
        return bytes((base + j) % 256 for j in range(length))
    return common._pseudo_random(length, 1000 + index)  # pylint: disable=protected-access


def run_program(stream, content: bytes, unit: int, graph: Graph, program):
    """Run ``program`` (abstract calls) on ``stream``; returns None if every step is allowed, else a dict."""
    node = graph.init
    trace = []
    for call in program:
        name, arg, whence = call
        try:
            if name == 'read':
                data = stream.read(arg * unit if arg >= 0 else -1)
                if not isinstance(data, (bytes, bytearray)):
                    outcome = ('garbage', repr(type(data)))
                elif len(data) == 0:
                    outcome = ('bytes', 0, 0)
                else:
                    lo = content.find(data)
                    if lo < 0 or lo % unit or len(data) % unit:
                        outcome = ('garbage', f'{len(data)} bytes not an aligned window of the object')
                    else:
                        outcome = ('bytes', lo // unit, (lo + len(data)) // unit)
            elif name == 'tell':
                value = stream.tell()
                outcome = ('int', value // unit) if isinstance(value, int) and value % unit == 0 else ('garbage', repr(value))
            else:
                value = stream.seek(arg * unit, whence)
                outcome = ('int', value // unit) if isinstance(value, int) and value % unit == 0 else ('garbage', repr(value))
        except Exception as exc:  # noqa  pylint: disable=broad-except
            outcome = ('raise', type(exc).__name__)
        try:
            told = stream.tell()
            tell_after = told // unit if isinstance(told, int) and told % unit == 0 else f'bad:{told}'
        except Exception as exc:  # noqa  pylint: disable=broad-except
            tell_after = f'exc:{type(exc).__name__}'
        trace.append({'call': list(call), 'outcome': list(outcome), 'tell_after': tell_after})
        nxt = graph.step(node, call, outcome[:1] if outcome[0] == 'raise' else outcome, tell_after)
        if nxt is None and name == 'seek' and outcome[0] == 'int':
            pos = graph.states[node]['pos']
            target = {0: arg, 1: pos + arg, 2: graph.n + arg}[whence]
            if target > graph.max_pos and outcome[1] == target and tell_after == target:
                return None  # parked beyond the positions the bounded model follows: rest of the program is out of scope
        if nxt is None:
            return {'trace': trace, 'allowed': graph.allowed(node, call), 'spec_pos_before': graph.states[node]['pos']}
        node = nxt
    return None


FORMS = ['loose', 'packed_first', 'packed_mid', 'packed_last', 'packedz', 'packedz_mid', 'packedz_cached', 'bulk_packedz',
         'bulk_packed_mid', 'bytesio']


class Store:
    """A container with the objects of every storage form, for one (N, unit)."""

    def __init__(self, folder: str, n_units: int, unit: int, shrink: bool):
        from disk_objectstore import Container  # pylint: disable=import-outside-toplevel
        from disk_objectstore import utils  # pylint: disable=import-outside-toplevel

        self.unit = unit
        self.n = n_units
        self.container = Container(folder)
        self.container.init_container(pack_size_target=1 << 40, loose_prefix_len=2)
        # class attributes: set both ways, pool workers are reused across jobs
        utils.ZlibLikeBaseStreamDecompresser._CHUNKSIZE = 2 if shrink else 524288  # pylint: disable=protected-access
        Container._CHUNKSIZE = 3 if shrink else 65536  # pylint: disable=protected-access
        cont = self.container
        self.content = {}
        self.keys = {}
        mk = lambda i: unit_content(i, n_units, unit)  # noqa
        # plain pack 0: three objects of this shape with distinguishable neighbours, plus guards
        guard_a, guard_b = b'\xf0\xf1\xf2\xf3\xf4', b'\xf5\xf6\xf7\xf8\xf9'
        plain = [guard_a, mk(1), mk(2), mk(3), guard_b]
        keys = cont.add_objects_to_pack(plain, compress=False)
        # (identical contents, e.g. all empty for N = 0, share a key: that is fine for reading)
        for form, idx in (('packed_first', 1), ('packed_mid', 2), ('packed_last', 3)):
            self.content[form] = plain[idx]
            self.keys[form] = keys[idx]
        self.content['bulk_packed_mid'], self.keys['bulk_packed_mid'] = plain[2], keys[2]
        comp = [mk(4), mk(5), mk(6)]
        zkeys = cont.add_objects_to_pack(comp, compress=True)
        self.content['packedz'], self.keys['packedz'] = comp[0], zkeys[0]
        self.content['packedz_mid'], self.keys['packedz_mid'] = comp[1], zkeys[1]
        self.content['bulk_packedz'], self.keys['bulk_packedz'] = comp[1], zkeys[1]
        self.content['packedz_cached'], self.keys['packedz_cached'] = comp[2], zkeys[2]
        if n_units:
            cont.loosen_object(zkeys[2])
        self.content['loose'] = mk(7)
        self.keys['loose'] = cont.add_object(self.content['loose'])
        self.content['bytesio'] = mk(8)
        self.volatile = {self.keys[f] for f in ('packedz', 'packedz_mid', 'bulk_packedz')}
        if n_units == 0:
            # all empty contents coincide; an empty object has a single key in every form
            self.volatile = set()

    def drop_cache(self, form):
        """Remove the loose cache a seeking read may have created, so that the form stays what it is."""
        key = self.keys.get(form)
        if key in self.volatile:
            path = self.container._get_loose_path_from_hashkey(key)  # pylint: disable=protected-access
            try:
                os.remove(path)
            except FileNotFoundError:
                pass

    def run(self, form: str, graph: Graph, program):
        content = self.content[form]
        if form == 'bytesio':
            return run_program(io.BytesIO(content), content, self.unit, graph, program)
        key = self.keys[form]
        try:
            if form.startswith('bulk_'):
                with self.container.get_objects_stream_and_meta([key]) as triplets:
                    result = 'no-stream'
                    for _key, stream, _meta in triplets:
                        result = run_program(stream, content, self.unit, graph, program)
            else:
                with self.container.get_object_stream(key) as stream:
                    result = run_program(stream, content, self.unit, graph, program)
        finally:
            self.drop_cache(form)
        if result == 'no-stream':
            return {'trace': [], 'allowed': [], 'error': 'no stream returned'}
        return result


def _worker(job):
    n_units, unit, shrink, forms, programs, graph = job
    failures = []
    runs = 0
    with common.scratch('st') as folder:
        store = Store(os.path.join(folder, 'c'), n_units, unit, shrink)
        for program in programs:
            for form in forms:
                runs += 1
                bad = store.run(form, graph, program)
                if bad is not None:
                    failures.append({'N': n_units, 'unit': unit, 'shrink': shrink, 'form': form,
                                     'program': [list(c) for c in program], **bad})
        store.container.close()
    return runs, failures


def all_programs(graph: Graph, depth: int):
    for length in range(1, depth + 1):
        yield from itertools.product(graph.calls, repeat=length)


def replay(data) -> int:
    """Re-execute one saved violating program; returns 1 if it still fails."""
    common.import_lib()
    rep = data['replay']
    graph = Graph(rep['N'])
    program = [tuple(c) for c in rep['program']]
    with common.scratch('st') as folder:
        store = Store(os.path.join(folder, 'c'), rep['N'], rep['unit'], rep['shrink'])
        bad = store.run(rep['form'], graph, program)
    print('replay:', 'still failing' if bad else 'passes', bad or '')
    return 1 if bad else 0


def check(report: common.Report) -> None:
    common.import_lib()
    thorough = report.tier == 'thorough'
    rng = common.rng('C07')
    states = transitions = 0
    graphs = {}
    for n_units in (0, 1, 3):
        graph = Graph(n_units)
        graphs[n_units] = graph
        states += graph.res.distinct
        transitions += graph.res.generated
    report.set('states', states)
    report.set('transitions', transitions)
    report.set('tlc', {f'N{n}': g.res.summary() for n, g in graphs.items()})
    report.set('alphabet_sizes', {f'N{n}': len(g.calls) for n, g in graphs.items()})

    jobs = []
    plan = []
    for n_units, graph in graphs.items():
        depth = 3 if n_units else 2
        programs = list(all_programs(graph, depth))
        extra_len = 6 if thorough else 5
        n_extra = (40000 if thorough else 3000)
        for _ in range(n_extra):
            programs.append(tuple(rng.choice(graph.calls) for _ in range(rng.randint(4, extra_len))))
        variants = [(1, True), (4, True)] if n_units else [(1, True)]
        if thorough and n_units:
            variants.append((1, False))
        for unit, shrink in variants:
            plan.append((n_units, unit, shrink, len(programs)))
            for part in common.chunks(programs, 16):
                jobs.append((n_units, unit, shrink, FORMS, part, graph))
        if n_units == 3:
            # real chunk sizes, 600 KiB objects: a sample of programs
            big = [p for p in programs if len(p) <= 2]
            big += rng.sample(programs, 1500 if thorough else 250)
            plan.append((n_units, 200000, False, len(big)))
            for part in common.chunks(big, 16):
                jobs.append((n_units, 200000, False, FORMS, part, graph))
    results = common.pmap(_worker, jobs)
    total_runs = 0
    for runs, failures in results:
        total_runs += runs
        for failure in failures:
            last = failure['trace'][-1] if failure.get('trace') else {}
            signature = {'form': failure['form'], 'call': (last.get('call') or ['?'])[0],
                         'whence': (last.get('call') or [0, 0, 0])[2], 'outcome': (last.get('outcome') or ['?'])[0]}
            report.violation(signature, {'driver': 'stream', **failure},
                             f"stream form={failure['form']} N={failure['N']} unit={failure['unit']} program={failure['program']}: "
                             f"step {len(failure.get('trace', []))} real={last} allowed={failure.get('allowed')}")
    n_programs = sum(p[3] for p in plan)
    report.count(n=total_runs)
    report.set('evaluations', total_runs)
    report.set('distinct_nontrivial', n_programs * len(FORMS))
    report.set('traces_validated_against_impl', total_runs)
    report.set('programs', n_programs)
    report.set('forms', FORMS)
    report.set('plan', [{'N': p[0], 'unit_bytes': p[1], 'shrunk_chunks': p[2], 'programs': p[3]} for p in plan])
    report.set('rule', 'program = path of the TLC state graph of Stream.tla (all call sequences up to length 3 over the '
                       'alphabet of the MC_Stream config, plus seeded random ones up to length 5/6); distinct = '
                       '(program, N, unit, form); each real outcome must be a successor in the graph')
    report.set('exhaustive', True)
    report.sample({'program': [list(c) for c in jobs[0][4][min(100, len(jobs[0][4]) - 1)]], 'forms': FORMS})
    report.sample({'allowed_at_init_for_seek(-1,2)': graphs[3].allowed(graphs[3].init, ('seek', -1, 2))})
    report.assumptions += [
        'bytes are identified with the interval of the object they come from (contents with pairwise distinct windows)',
        'internal chunk sizes are class attributes shrunk by the harness (2 and 3 bytes) so that boundaries are crossed; '
        'a sample also runs with the real chunk sizes on 600 KB objects',
    ]
