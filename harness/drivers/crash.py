"""C05 / C06 - crash and power-loss at every I/O boundary of every operation scenario.

The operation runs once under the interposition shim.  Before every observed kernel-level call (raw write,
truncate, fsync, rename/replace/link/unlink/mkdir, open, close, SQL statement, commit) the handler snapshots the
container folder: that copy *is* the state a process kill at this boundary leaves behind (user-space buffers are
in memory, not on disk).  A second image applies the power-loss model of C06: every regular non-SQLite file keeps
only the content it had at its last fsync (pre-existing files count as synced, never-synced files are empty), names
and the SQLite files are kept.  For raw writes of more than one byte a *torn* image (half of the data written) is
produced as well.

Each image is examined raw (projection) and through a fresh ``Container``; the observations become one trace per
scenario, and TLC evaluates ``Recoverable`` / ``DurableVisible`` (CrashTrace.tla) in every state.
"""
from __future__ import annotations

import hashlib
import json
import os
import re
import shutil

from .. import common, project, scenarios, shim, tlc

SQLITE_PREFIX = 'packs.idx'
TRACED_OPS = ('write', 'truncate', 'fsync', 'rename', 'replace', 'link', 'unlink', 'mkdir', 'open', 'close', 'sql', 'fcntl')


def copy_tree(src, dst):
    shutil.copytree(src, dst, symlinks=True)


class Snapshotter(shim.Handler):
    """Takes crash / power-loss images at every event boundary."""

    def __init__(self, root_path, out_dir, want_power=True):
        super().__init__()
        self.root = root_path
        self.out = out_dir
        self.want_power = want_power
        self.images = []  # (index, event summary, crash dir, power dir or None, torn dir or None)
        self.shadow = {}  # inode -> bytes at last fsync
        self.initial_inodes = set()
        for dirpath, _dirs, files in os.walk(root_path):
            for name in files:
                if name.startswith(SQLITE_PREFIX):
                    continue
                path = os.path.join(dirpath, name)
                st = os.stat(path)
                with shim.real('open')(path, 'rb') as handle:
                    self.shadow[st.st_ino] = handle.read()
                self.initial_inodes.add(st.st_ino)
        self.counter = 0
        self.busy = False

    def summary(self, ev):
        keep = {k: ev[k] for k in ('op', 'obj', 'mode', 'len', 'kind', 'src', 'to') if k in ev}
        return keep

    def power_image(self, dst):
        """Copy of the live folder in which file data not fsynced is lost."""
        for dirpath, _dirs, files in os.walk(self.root):
            rel = os.path.relpath(dirpath, self.root)
            os.makedirs(os.path.join(dst, rel), exist_ok=True)
            for name in files:
                src = os.path.join(dirpath, name)
                target = os.path.join(dst, rel, name)
                if name.startswith(SQLITE_PREFIX) or name == 'config.json':
                    shutil.copyfile(src, target)
                    continue
                ino = os.stat(src).st_ino
                with shim.real('open')(target, 'wb') as handle:
                    handle.write(self.shadow.get(ino, b''))
        # empty directories
        for dirpath, dirs, _files in os.walk(self.root):
            for name in dirs:
                os.makedirs(os.path.join(dst, os.path.relpath(os.path.join(dirpath, name), self.root)), exist_ok=True)

    def snapshot(self, ev, torn=None):
        self.counter += 1
        index = self.counter
        crash_dir = os.path.join(self.out, f'crash{index}')
        copy_tree(self.root, crash_dir)
        power_dir = None
        if self.want_power:
            power_dir = os.path.join(self.out, f'power{index}')
            self.power_image(power_dir)
        torn_dir = None
        if torn is not None:
            torn_dir = os.path.join(self.out, f'torn{index}')
            copy_tree(self.root, torn_dir)
            with shim.real('open')(os.path.join(torn_dir, ev['rel']), 'ab') as handle:
                handle.write(torn)
        self.images.append((index, self.summary(ev), crash_dir, power_dir, torn_dir))

    def pre(self, ev):
        if self.busy or ev['op'] not in TRACED_OPS or ev.get('quiet'):
            return
        if ev['op'] in ('open', 'close') and not (ev.get('w') or any(c in ev.get('mode', '') for c in 'wxa+')):
            return  # read-only opens/closes do not change the disk
        if ev['op'] == 'sql' and ev.get('kind') in ('SELECT', 'BEGIN', 'PRAGMA'):
            return
        self.busy = True
        shim.SHIM.enabled = False
        try:
            torn = None
            if ev['op'] == 'write' and ev.get('len', 0) > 1 and ev.get('append') is not None:
                torn = ev.get('data', b'')[:max(1, ev['len'] // 2)] if ev.get('data') else None
            self.snapshot(ev, torn)
        finally:
            shim.SHIM.enabled = True
            self.busy = False

    def post(self, ev):
        self.events.append(ev)
        if ev['op'] == 'fsync' and ev.get('res') == 'ok' and not ev['obj'].startswith('dir:'):
            # remember what is durable for this inode
            path = os.path.join(self.root, ev['rel'])
            try:
                st = os.stat(path)
                with shim.real('open')(path, 'rb') as handle:
                    self.shadow[st.st_ino] = handle.read()
            except OSError:
                pass

    def final(self):
        self.busy = True
        shim.SHIM.enabled = False
        try:
            self.snapshot({'op': 'end', 'obj': '-', 'rel': ''})
        finally:
            self.busy = False


def examine(image_dir, contents, key_of):
    """Raw projection + what a fresh handle answers, for one image."""
    from disk_objectstore import Container  # pylint: disable=import-outside-toplevel

    name_of = {v: k for k, v in key_of.items()}
    state = project.project(image_dir, with_bytes=False)
    obs = {
        'loose': [{'k': name_of.get(k, k[:8]), 'tag': v['tag']} for k, v in sorted(state['loose'].items())],
        'rows': [{'k': name_of.get(r['hashkey'], r['hashkey'][:8]), 'p': r['pack_id'], 'off': r['offset'], 'len': r['length'],
                  'z': r['compressed'], 'size': r['size'], 'tag': r['tag']} for r in state['rows']],
        'packs': [{'p': p, 'len': info['len']} for p, info in sorted(state['packs'].items())],
        'locks': state['locks'], 'sandbox': len(state['sandbox']),
    }
    views = []
    cont = Container(image_dir)
    try:
        for name in scenarios.UNIVERSE:
            key = key_of[name]
            try:
                has = bool(cont.has_object(key))
            except Exception as exc:  # noqa pylint: disable=broad-except
                has = f'raised:{type(exc).__name__}'
            try:
                data = cont.get_object_content(key)
                cls = contents.classify_bytes(name, data)
            except Exception as exc:  # noqa pylint: disable=broad-except
                cls = 'NotExistent' if type(exc).__name__ == 'NotExistent' else 'RAISED'
            cls = cls.split(':')[0]
            views.append({'k': name, 'has': has if isinstance(has, bool) else False,
                          'haserr': '' if isinstance(has, bool) else has, 'cls': cls})
    finally:
        cont.close()
    return obs, views


def run_scenario(job):
    """Worker: one scenario -> one trace (list of lines, one per kill point and image kind)."""
    scenario_index, thorough, want = job
    common.import_lib()
    from disk_objectstore import Container  # pylint: disable=import-outside-toplevel

    scenario = scenarios.all_scenarios(thorough)[scenario_index]
    contents = scenarios.table()
    key_of = {name: hashlib.sha256(contents[name]).hexdigest() for name in scenarios.UNIVERSE}
    sh = shim.install()
    lines = []
    with common.scratch('cr') as work:
        folder = os.path.join(work, 'c')
        scenario.build(folder, contents)
        images_dir = os.path.join(work, 'img')
        os.makedirs(images_dir)
        sh.clear()
        sh.add_root(folder, 'c', 2, contents)
        handler = Snapshotter(folder, images_dir, want_power='power' in want)
        sh.handler = handler
        handler.want_data = True
        cont = Container(folder)
        error = ''
        sh.enabled = True
        try:
            scenario.op(cont, contents)
        except Exception as exc:  # noqa pylint: disable=broad-except
            error = f'{type(exc).__name__}: {exc}'[:200]
        finally:
            sh.enabled = False
        handler.final()
        cont.close()
        sh.clear()
        for index, ev, crash_dir, power_dir, torn_dir in handler.images:
            for kind, path in (('crash', crash_dir), ('power', power_dir), ('torn', torn_dir)):
                if path is None or kind not in want and not (kind == 'torn' and 'crash' in want):
                    continue
                obs, views = examine(path, contents, key_of)
                lines.append({'point': index, 'kind': kind, 'ev': ev, 'obs': obs, 'views': views})
                # life goes on after the crash: a new handle runs the operation again on the image (for repack on every
                # image, otherwise on every third one); whatever it does - succeed or refuse - the store must stay intact
                if kind != 'power' and (scenario.repack or index % 3 == 0):
                    rerun_error = ''
                    packdir = os.path.join(path, 'packs')
                    for name in os.listdir(packdir):
                        if name.endswith('.lock'):
                            os.remove(os.path.join(packdir, name))
                    again = Container(path)
                    try:
                        scenario.op(again, contents)
                    except Exception as exc:  # noqa pylint: disable=broad-except
                        rerun_error = type(exc).__name__
                    finally:
                        again.close()
                    obs2, views2 = examine(path, contents, key_of)
                    lines.append({'point': index, 'kind': kind, 'ev': {**ev, 'then': 'rerun', 'rerun_raised': rerun_error},
                                  'obs': obs2, 'views': views2})
    return {'scenario': scenario.name, 'index': scenario_index, 'acked': scenario.acked(), 'adds': scenario.adds,
            'deletes': scenario.deletes, 'repack': scenario.repack, 'damaged': scenario.damaged, 'lines': lines,
            'error': error, 'n_events': len(handler.images)}


INVARIANTS = {
    'C05': ['C05_Recoverable', 'C05_NoTornObject', 'C05_ReadsSafe'],
    'C06': ['C06_DurableVisible', 'C06_NoTornObject', 'C06_ReadsSafe'],
}


def monitor(traces, invariants, workdir):
    trace_file = os.path.join(workdir, 'crash.ndjson')
    with open(trace_file, 'w', encoding='utf8') as handle:
        handle.write(json.dumps({'kind': 'header', 'universe': scenarios.UNIVERSE}) + '\n')
        for trace in traces:
            handle.write(json.dumps(trace) + '\n')
    cfg = os.path.join(workdir, 'CrashTrace.cfg')
    with open(cfg, 'w', encoding='utf8') as handle:
        handle.write('SPECIFICATION Spec\n')
        for inv in invariants:
            handle.write(f'INVARIANT {inv}\n')
        handle.write('CHECK_DEADLOCK FALSE\n')
    res = tlc.run('CrashTrace', cfg, workers=1, timeout=1500, args=['-continue'], env={'TRACE_FILE': trace_file})
    hits = []
    for chunk in re.split(r'(?=Error: Invariant \w+ is violated)', res.output):
        m = re.match(r'Error: Invariant (\w+) is violated', chunk)
        if not m:
            continue
        tids = re.findall(r'/\\ tid = (\d+)', chunk)
        ls = re.findall(r'/\\ l = (\d+)', chunk)
        if tids and ls:
            hits.append((m.group(1), int(tids[-1]), int(ls[-1])))
    return res, hits


def check(report: common.Report, prop: str):
    common.import_lib()
    from .. import design  # pylint: disable=import-outside-toplevel
    design.check(report, prop)
    thorough = report.tier == 'thorough'
    all_sc = scenarios.all_scenarios(thorough)
    want = ('crash',) if prop == 'C05' else ('power',)
    jobs = [(i, thorough, want) for i in range(len(all_sc)) if prop != 'C06' or all_sc[i].default_sync]
    traces = common.pmap(run_scenario, jobs)
    for trace in traces:
        if trace['error']:
            report.note(f"scenario {trace['scenario']} raised without any fault: {trace['error']}")
    with common.scratch('mon') as workdir:
        res, hits = monitor(traces, INVARIANTS[prop], workdir)
    expected = sum(len(t['lines']) for t in traces)
    if res.timeout or (res.error_lines and not hits) or res.distinct != expected:
        print(f'monitor states {res.distinct} expected {expected}')
        tlc.machinery_failure(res, 'CrashTrace monitor')
    seen = set()
    for inv, tid, line_no in hits:
        trace = traces[tid - 1]
        line = trace['lines'][line_no - 1]
        sig = {'invariant': inv, 'scenario': trace['scenario'].split(':')[0], 'event': line['ev'].get('op'),
               'obj': re.sub(r'\d+$', '', line['ev'].get('obj', '')), 'kind': line['kind']}
        if (inv, trace['scenario'], line['ev'].get('op'), line['ev'].get('obj')) in seen:
            continue
        seen.add((inv, trace['scenario'], line['ev'].get('op'), line['ev'].get('obj')))
        bad_views = [v for v in line['views'] if v['cls'] not in ('OK', 'NotExistent')]
        report.violation(sig, {'driver': 'crash', 'scenario': trace['scenario'], 'point': line['point'], 'kind': line['kind'],
                               'invariant': inv},
                         f"{inv}: scenario {trace['scenario']} killed before event #{line['point']} {line['ev']} "
                         f"({line['kind']} image): obs={json.dumps(line['obs'])[:700]} bad_views={bad_views}")
    points = sum(t['n_events'] for t in traces)
    report.set('evaluations', expected)
    report.set('distinct_nontrivial', expected)
    report.set('kill_points', points)
    report.set('scenarios', [t['scenario'] for t in traces])
    report.set('traces_validated_against_impl', len(traces))
    report.add('states', res.distinct)
    report.add('transitions', res.generated)
    report.set('monitor', res.summary())
    report.set('exhaustive', True)
    report.set('rule', 'every kernel-level I/O boundary (raw write/truncate/fsync/rename/replace/link/unlink/mkdir/open-for-'
                       'write/close/SQL statement/commit) of every scenario, as crash image'
                       + (' plus torn-write image' if prop == 'C05' else ' under the power-loss model') +
                       '; distinct = (scenario, boundary, image kind)')
    report.sample({'scenario': traces[0]['scenario'], 'line': traces[0]['lines'][min(5, len(traces[0]['lines']) - 1)]})
    return traces


def check_C05(report):
    check(report, 'C05')
    from . import maintconf  # pylint: disable=import-outside-toplevel
    maintconf.check(report)  # the recorded step sequences of the maintenance operations are DosMaint's programs


def check_C06(report):
    check(report, 'C06')
    from . import durable  # pylint: disable=import-outside-toplevel
    durable.check(report)  # second, image-free decision procedure: the L0 event monitor DurTrace.tla


def replay(data) -> int:
    common.import_lib()
    rep = data['replay']
    names = [s.name for s in scenarios.all_scenarios(True)]
    index = names.index(rep['scenario'])
    kinds = ('crash',) if rep['kind'] in ('crash', 'torn') else ('power',)
    trace = run_scenario((index, True, kinds))
    with common.scratch('mon') as workdir:
        res, hits = monitor([trace], INVARIANTS['C05'] + INVARIANTS['C06'], workdir)
    print('replay: violated', sorted({h[0] for h in hits}) or 'nothing')
    return 1 if hits else 0
