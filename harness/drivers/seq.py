"""Sequential histories: generate, execute on the real library, observe, and validate with TLC (SeqTrace.tla).

Serves C02, C03, C09, C10, C11, C12(i), C13 and the descriptor part of C18.  A history is a list of public API calls
on one container (one handle, possibly re-opened); after every call the harness records

* the raw projection of the folder (sqlite3 + zlib + hashlib only),
* every view through a *fresh* handle (existence, bulk and single reads, metadata, listing, counts, totals),
* byte-level facts about each pack before/after the call,
* the outcome of ``validate()`` and the census of open descriptors inside the folder,

and TLC evaluates every property predicate in every state of every recorded history.
"""
from __future__ import annotations

import hashlib
import io
import json
import os
import re

from .. import common, project, tlc

# switch constants of DosSeq describing the code as it currently is (see DESIGN.md section 3.2)
LIST_PINNED = False

UNIVERSE = ['k1', 'k2', 'k3', 'k4', 'k5', 'k6', 'k7', 'k8', 'k9']  # k9 is never stored
MODES = ['NO', 'YES', 'KEEP', 'AUTO']


def contents():
    table = dict(common.small_contents().table)
    full = dict(table)
    full['k9'] = b'never stored'
    return common.Contents(table), common.Contents(full)


# ------------------------------------------------------------------------------------------------
# History generation
# ------------------------------------------------------------------------------------------------


def random_config(rng, profile):
    target = rng.choice([50, 120, 400, 10 ** 9]) if profile != 'C13' else rng.choice([30, 50, 120, 400])
    return {
        'hash': rng.choice(['sha256', 'sha1']),
        'prefix': rng.choice([0, 1, 2, 2, 3]),
        'zlevel': rng.choice([1, 1, 6, 9]) if profile != 'C10' else (rng.randint(1, 9) if common.tier() == 'thorough' else rng.choice([1, 3, 6, 9])),
        'target': target,
    }


def _keys(rng, n_max, pool=None):
    pool = pool or UNIVERSE[:8]
    return [rng.choice(pool) for _ in range(rng.randint(1, n_max))]


def random_step(rng, profile, allow_repack=True):
    weights = {
        'add': 5, 'addpack': 5, 'pack': 4, 'clean': 2, 'repack': 2, 'delete': 2, 'loosen': 1, 'import': 2,
        'reopen': 1, 'initagain': 0.3, 'has': 0.7, 'get': 0.7, 'list': 0.5, 'listpart': 0.3, 'stalelock': 0.4, 'unlock': 0.2, 'tmppack': 0.25, 'rmtmp': 0.2,
    }
    if profile == 'C09':
        weights.update({'addpack': 10, 'add': 8, 'import': 3, 'delete': 1, 'repack': 1, 'readd': 5})
    elif profile == 'C10':
        weights.update({'pack': 7, 'repack': 7, 'add': 6})
    elif profile == 'C11':
        weights.update({'delete': 6, 'repack': 5, 'stray': 3, 'tmppack': 1.2, 'rmtmp': 0.8})
    elif profile == 'C13':
        weights.update({'repack': 0, 'addpack': 8, 'reopen': 3, 'import': 3, 'stalelock': 2, 'unlock': 0.7})
    if not allow_repack:
        weights['repack'] = 0
    names = list(weights)
    name = rng.choices(names, [weights[n] for n in names])[0]
    pool = UNIVERSE[:8] if profile != 'C09' else UNIVERSE[:5]
    step = {'name': name}
    if name == 'add':
        step.update(keys=[rng.choice(pool)], via=rng.choice(['bytes', 'stream']))
    elif name == 'stray':
        step.update(keys=[rng.choice(pool)], good=rng.random() < 0.8)
    elif name == 'readd':
        step.update(keys=[rng.choice(pool)], via=rng.choice(['bytes', 'stream']),
                    how=rng.choice(['first', 'last', 'truncate', 'empty', 'grow']))
    elif name == 'addpack':
        noholes = rng.random() < (0.6 if profile == 'C09' else 0.35)
        step.update(keys=_keys(rng, 4, pool), z=rng.random() < 0.4, noholes=noholes,
                    twice=rng.random() < 0.5, via=rng.choice(['bytes', 'streams', 'lazy', 'single', 'chain']))
        if step['via'] == 'single':
            step['keys'] = step['keys'][:1]
    elif name == 'pack':
        step.update(mode=rng.choice(MODES + ['True', 'False']), perpack=rng.random() < 0.4, validate=rng.random() < 0.7)
    elif name == 'clean':
        step.update(vacuum=rng.random() < 0.4)
    elif name == 'repack':
        step.update(mode=rng.choice(MODES))
    elif name == 'delete':
        step.update(keys=sorted(set(_keys(rng, 3, UNIVERSE))))
    elif name == 'loosen':
        step.update(keys=[rng.choice(UNIVERSE)])
    elif name == 'import':
        step.update(keys=_keys(rng, 5, UNIVERSE), z=rng.random() < 0.4, budget=rng.choice([1, 30, 100, 400, 10 ** 8]),
                    iterable=rng.choice(['list', 'tuple', 'set', 'generator']), callback=rng.random() < 0.4,
                    src=rng.randrange(4))
    elif name in ('has', 'get'):
        step.update(keys=sorted(set(_keys(rng, 4, UNIVERSE))))
        if len(step['keys']) == 1 and rng.random() < 0.6:
            step['single'] = rng.choice([True, 'stream']) if name == 'get' else True
    return step


def aba_histories(rng):
    """Systematic short histories  setup ; A ; B ; A ; views  : a call, something that changes what the call relied on
    (a deletion, a repack, a clean, a new handle, a lock left behind ...), the same call again.  Per-handle caches and
    'seen this before' shortcuts show up here; random histories of a dozen steps rarely contain the right triple."""
    key = 'k2'
    setups = {
        'empty': [],
        'loose': [{'name': 'add', 'keys': [key], 'via': 'bytes'}],
        'packed': [{'name': 'addpack', 'keys': [key, 'k3'], 'z': False, 'noholes': False, 'twice': False, 'via': 'bytes'}],
        'packedz-cleaned': [{'name': 'add', 'keys': [key], 'via': 'bytes'},
                            {'name': 'pack', 'mode': 'YES', 'perpack': False, 'validate': True}, {'name': 'clean', 'vacuum': False}],
    }
    calls = {
        'add': {'name': 'add', 'keys': [key], 'via': 'stream'},
        'addpack': {'name': 'addpack', 'keys': [key], 'z': False, 'noholes': False, 'twice': False, 'via': 'bytes'},
        'addpack-nh1': {'name': 'addpack', 'keys': [key, 'k4'], 'z': True, 'noholes': True, 'twice': False, 'via': 'streams'},
        'addpack-nh2': {'name': 'addpack', 'keys': [key], 'z': False, 'noholes': True, 'twice': True, 'via': 'bytes'},
        'import-same': {'name': 'import', 'keys': [key, 'k3'], 'z': False, 'budget': 10 ** 8, 'iterable': 'list', 'callback': False,
                        'src': 0},
        'import-same-small': {'name': 'import', 'keys': [key, 'k5', 'k1'], 'z': True, 'budget': 30, 'iterable': 'tuple',
                              'callback': True, 'src': 0},
        'import-other': {'name': 'import', 'keys': [key, 'k5'], 'z': False, 'budget': 10 ** 8, 'iterable': 'list', 'callback': False,
                         'src': 1},
        'pack': {'name': 'pack', 'mode': 'AUTO', 'perpack': True, 'validate': False},
        'loosen': {'name': 'loosen', 'keys': [key]},
        'get': {'name': 'get', 'keys': [key, 'k7']},
        'get1': {'name': 'get', 'keys': [key], 'single': 'stream'},
        'has1': {'name': 'has', 'keys': [key], 'single': True},
        'listpart': {'name': 'listpart'},
    }
    disturbances = {
        'delete': [{'name': 'delete', 'keys': [key]}],
        'delete-repack': [{'name': 'delete', 'keys': [key]}, {'name': 'repack', 'mode': 'KEEP'}],
        'repack': [{'name': 'repack', 'mode': 'YES'}],
        'clean': [{'name': 'clean', 'vacuum': True}],
        'reopen': [{'name': 'reopen'}],
        'pack-clean': [{'name': 'pack', 'mode': 'NO', 'perpack': False, 'validate': True}, {'name': 'clean', 'vacuum': False}],
        'stalelock': [{'name': 'stalelock'}],
        'add-loose': [{'name': 'add', 'keys': [key], 'via': 'bytes'}],
    }
    out = []
    for sname, setup in setups.items():
        for cname, call in calls.items():
            for dname, disturbance in disturbances.items():
                steps = [dict(x) for x in setup] + [dict(call)] + [dict(x) for x in disturbance] + [dict(call)]
                steps.append({'name': 'has', 'keys': [key, 'k3', 'k7']})
                cfg = {'hash': 'sha256', 'prefix': 2, 'zlevel': 1, 'target': rng.choice([120, 10 ** 9])}
                out.append((cfg, steps, f'{sname};{cname};{dname};{cname}'))
    # gaps in the pack numbering: three packs of one object each, the middle one (or the first) is emptied and removed by a
    # repack, then the same again above the gap
    one = lambda k: {'name': 'addpack', 'keys': [k], 'z': False, 'noholes': False, 'twice': True, 'via': 'bytes'}  # noqa
    for first_gone, second_gone, mode in (('k3', 'k6', 'KEEP'), ('k2', 'k6', 'YES'), ('k3', 'k2', 'NO'), ('k2', 'k3', 'KEEP')):
        steps = [one('k2'), one('k3'), one('k6'), {'name': 'delete', 'keys': [first_gone]}, {'name': 'repack', 'mode': mode},
                 {'name': 'has', 'keys': ['k2', 'k3', 'k6']}, one('k5'), {'name': 'delete', 'keys': [second_gone]},
                 {'name': 'repack', 'mode': mode}, {'name': 'list'}, {'name': 'reopen'}, one('k7'), {'name': 'repack', 'mode': mode}]
        out.append(({'hash': 'sha256', 'prefix': 2, 'zlevel': 1, 'target': 1}, steps, f'gap;{first_gone};{second_gone};{mode}'))
    # a pack whose objects are all compressed and whose stored lengths add up to exactly the sum of the sizes (k3, k6, k7
    # grow by 9 + 11 + 8 bytes when deflated, k2 shrinks by 28): totals say nothing about the form of the single objects
    for mode in ('NO', 'KEEP', 'AUTO'):
        steps = [{'name': 'addpack', 'keys': ['k2', 'k3', 'k6', 'k7'], 'z': True, 'noholes': False, 'twice': True, 'via': 'bytes'},
                 {'name': 'repack', 'mode': mode}, {'name': 'get', 'keys': ['k2', 'k3', 'k6', 'k7']},
                 {'name': 'repack', 'mode': 'YES'}, {'name': 'repack', 'mode': 'NO'}, {'name': 'list'}]
        out.append(({'hash': 'sha256', 'prefix': 2, 'zlevel': 6, 'target': 10 ** 9}, steps, f'gap;sums;{mode}'))
    # the temporary pack of an interrupted repack is in the way: refused, removed by the operator, repacked
    for mode in ('KEEP', 'YES'):
        steps = [{'name': 'addpack', 'keys': ['k2', 'k3', 'k5'], 'z': False, 'noholes': False, 'twice': True, 'via': 'bytes'},
                 {'name': 'delete', 'keys': ['k3']}, {'name': 'tmppack'}, {'name': 'repack', 'mode': mode},
                 {'name': 'has', 'keys': ['k2', 'k3', 'k5']}, {'name': 'rmtmp'}, {'name': 'repack', 'mode': mode}, {'name': 'list'}]
        out.append(({'hash': 'sha256', 'prefix': 2, 'zlevel': 1, 'target': 10 ** 9}, steps, f'gap;tmp;{mode}'))
    return out


def random_history(rng, profile, length):
    steps = []
    norepack = profile == 'C13' or rng.random() < 0.35
    for _ in range(length):
        steps.append(random_step(rng, profile, allow_repack=not norepack))
    return steps


# ------------------------------------------------------------------------------------------------
# Execution
# ------------------------------------------------------------------------------------------------

SOURCES = [
    # (hash type, {key: form}) ; forms: loose / packed / packedz
    ('same', {'k1': 'loose', 'k2': 'packed', 'k3': 'packedz', 'k5': 'packedz', 'k4': 'loose'}),
    ('other', {'k2': 'loose', 'k5': 'packed', 'k6': 'packedz', 'k8': 'loose', 'k4': 'packed'}),
    ('same', {'k6': 'packed', 'k7': 'packed', 'k8': 'packedz', 'k1': 'packedz'}),
    ('other', {'k1': 'packedz', 'k3': 'loose', 'k7': 'loose'}),
]


def fd_census(folder: str, include_index: bool = False) -> int:
    count = 0
    for name in os.listdir('/proc/self/fd'):
        try:
            target = os.readlink(f'/proc/self/fd/{name}')
        except OSError:
            continue
        if target.startswith(folder):
            if not include_index and os.path.basename(target).startswith('packs.idx'):
                continue
            count += 1
    return count


class Runner:
    """Executes one history on a real container and records the trace lines."""

    def __init__(self, folder: str, cfg: dict, table: common.Contents, full: common.Contents):
        from disk_objectstore import Container  # pylint: disable=import-outside-toplevel

        self.Container = Container
        self.folder = os.path.join(folder, 'c')
        self.base = folder
        self.cfg = cfg
        self.table = table
        self.full = full
        self.hash = cfg['hash']
        self.handles = {}
        self.current = 'h1'
        self.handle = Container(self.folder)
        self.handle.init_container(pack_size_target=cfg['target'], loose_prefix_len=cfg['prefix'], hash_type=cfg['hash'],
                                   compression_algorithm=f"zlib+{cfg['zlevel']}")
        self.sources = {}
        self.norepack = True
        self.key_of = {name: hashlib.new(self.hash, data).hexdigest() for name, data in full.table.items()}
        self.name_of = {v: k for k, v in self.key_of.items()}

    # -- handles ---------------------------------------------------------------------------------
    @property
    def handle(self):
        if self.current not in self.handles:
            self.handles[self.current] = self.Container(self.folder)
        return self.handles[self.current]

    @handle.setter
    def handle(self, value):
        self.handles[self.current] = value

    # -- helpers ---------------------------------------------------------------------------------
    def source(self, index, step=None):
        if step is not None and 'srckeys' in step:
            index = ('custom', tuple(step['srckeys']), step['samehash'])
        if index not in self.sources:
            if isinstance(index, tuple):
                kind = 'same' if index[2] else 'other'
                forms = {k: ['loose', 'packed', 'packedz'][i % 3] for i, k in enumerate(index[1]) if k in self.full.table}
            else:
                kind, forms = SOURCES[index]
            other = {'sha256': 'sha1', 'sha1': 'sha256'}[self.hash]
            hash_type = self.hash if kind == 'same' else other
            cont = self.Container(os.path.join(self.base, f'src{len(self.sources)}'))
            cont.init_container(hash_type=hash_type, pack_size_target=10 ** 9, loose_prefix_len=2)
            for name, form in forms.items():
                data = self.full[name]
                if form == 'loose':
                    cont.add_object(data)
                else:
                    cont.add_objects_to_pack([data], compress=form == 'packedz')
            self.sources[index] = (cont, hash_type, forms)
        return self.sources[index]

    def names(self, hashkeys):
        return [self.name_of.get(h, f'?{h[:6]}') for h in hashkeys]

    def pack_bytes(self):
        out = {}
        packdir = os.path.join(self.folder, 'packs')
        for name in os.listdir(packdir):
            if name.isdigit():
                with open(os.path.join(packdir, name), 'rb') as handle:
                    out[int(name)] = handle.read()
        return out

    # -- one API call ---------------------------------------------------------------------------
    def call(self, step):
        """Perform the call; returns (res, raised)."""
        from disk_objectstore import CompressMode  # pylint: disable=import-outside-toplevel
        from disk_objectstore.utils import LazyOpener  # pylint: disable=import-outside-toplevel

        self.current = step.get('h', 'h1')
        cont = self.handle
        name = step['name']
        data = lambda k: self.full[k]  # noqa
        try:
            if name == 'add':
                key = step['keys'][0]
                if step['via'] == 'bytes':
                    res = [cont.add_object(data(key))]
                else:
                    res = [cont.add_streamed_object(io.BytesIO(data(key)))]
                return self.names(res), ''
            if name == 'stalelock':
                # environment: a writer was killed inside lock_pack: the lock file of the pack that is currently written
                # to (first pack that does not exist or is below the target) stays behind
                packdir = os.path.join(self.folder, 'packs')
                if not [n for n in os.listdir(packdir) if n.endswith('.lock')]:
                    pack_id = 0
                    while True:
                        path = os.path.join(packdir, str(pack_id))
                        if not os.path.exists(path) or os.path.getsize(path) < self.cfg['target']:
                            break
                        pack_id += 1
                    with open(os.path.join(packdir, f'{pack_id}.lock'), 'x'):
                        pass
                return [], ''
            if name == 'tmppack':
                # environment: a repack was killed while it copied: its temporary pack stays behind
                path = os.path.join(self.folder, 'packs', '-1')
                if not os.path.exists(path):
                    with open(path, 'wb') as handle:
                        handle.write(b'left behind by an interrupted repack ' * 3)
                return [], ''
            if name == 'rmtmp':
                path = os.path.join(self.folder, 'packs', '-1')
                if os.path.exists(path):
                    os.remove(path)
                return [], ''
            if name == 'unlock':
                packdir = os.path.join(self.folder, 'packs')
                for entry in os.listdir(packdir):
                    if entry.endswith('.lock'):
                        os.remove(os.path.join(packdir, entry))
                return [], ''
            if name == 'stray':
                # environment: a stray copy in duplicates/ (what a Windows writer race leaves behind)
                key = step['keys'][0]
                blob = data(key) if step.get('good', True) else b'corrupt' + data(key)
                import uuid  # pylint: disable=import-outside-toplevel
                with open(os.path.join(self.folder, 'duplicates', f'{self.key_of[key]}.{uuid.uuid4().hex}'), 'wb') as handle:
                    handle.write(blob)
                return [], ''
            if name == 'readd':
                key = step['keys'][0]
                path = cont._get_loose_path_from_hashkey(self.key_of[key])  # pylint: disable=protected-access
                if os.path.exists(path):
                    good = data(key)
                    how = step['how']
                    if how == 'first' and good:
                        bad = bytes([good[0] ^ 0x40]) + good[1:]
                    elif how == 'last' and good:
                        bad = good[:-1] + bytes([good[-1] ^ 0x01])
                    elif how == 'truncate' and good:
                        bad = good[:len(good) // 2]
                    elif how == 'empty' and good:
                        bad = b''
                    else:
                        bad = good + b'x'
                    with open(path, 'wb') as handle:
                        handle.write(bad)
                if step['via'] == 'bytes':
                    res = [cont.add_object(data(key))]
                else:
                    res = [cont.add_streamed_object(io.BytesIO(data(key)))]
                return self.names(res), ''
            if name == 'addpack':
                kwargs = {'compress': step['z'], 'no_holes': step['noholes'], 'no_holes_read_twice': step['twice']}
                via = step['via']
                if via == 'chain':
                    # several calls with do_commit=False, then the manual commit the docstring asks for
                    res = []
                    keys = step['keys']
                    cut = max(1, len(keys) // 2)
                    for part in (keys[:cut], keys[cut:]):
                        if part:
                            res += cont.add_objects_to_pack([data(k) for k in part], do_commit=False, **kwargs)
                    cont._get_operation_session().commit()  # pylint: disable=protected-access
                elif via == 'bytes' and step.get('nested'):
                    # another handle writes to the packs from inside this call's 'init' progress callback (after this call
                    # has chosen its pack, before it locks it); the nested call is recorded as a step of its own
                    nested = dict(step['nested'])
                    outer = self.current
                    fired = []

                    def callback(action, value=None):  # pylint: disable=unused-argument
                        if action == 'init' and not fired:
                            fired.append(True)
                            inner_res, inner_raised = self.call(nested)
                            self.record(nested, inner_res, inner_raised)
                            self.current = outer

                    res = cont.add_objects_to_pack([data(k) for k in step['keys']], callback=callback, **kwargs)
                elif via == 'bytes':
                    res = cont.add_objects_to_pack([data(k) for k in step['keys']], **kwargs)
                elif via == 'streams':
                    res = cont.add_streamed_objects_to_pack([io.BytesIO(data(k)) for k in step['keys']], **kwargs)
                elif via == 'single':
                    res = [cont.add_streamed_object_to_pack(io.BytesIO(data(step['keys'][0])), **kwargs)]
                elif via == 'offset':
                    # streams handed over at a non-zero position (e.g. a header was already consumed)
                    streams = []
                    for k in step['keys']:
                        stream = io.BytesIO(data(k))
                        stream.seek(min(3, len(data(k))))
                        streams.append(stream)
                    res = cont.add_streamed_objects_to_pack(streams, **kwargs)
                else:
                    paths = []
                    for i, k in enumerate(step['keys']):
                        path = os.path.join(self.base, f'in{i}')
                        with open(path, 'wb') as handle:
                            handle.write(data(k))
                        paths.append(path)
                    from pathlib import Path  # pylint: disable=import-outside-toplevel
                    res = cont.add_streamed_objects_to_pack([LazyOpener(Path(p)) for p in paths], open_streams=True,
                                                            **kwargs)
                return self.names(res), ''
            if name == 'pack':
                mode = step['mode']
                compress = {'True': True, 'False': False}.get(mode)
                if compress is None:
                    compress = CompressMode[mode]
                cont.pack_all_loose(compress=compress, clean_loose_per_pack=step['perpack'],
                                    validate_objects=step['validate'])
                return [], ''
            if name == 'clean':
                cont.clean_storage(vacuum=step['vacuum'])
                return [], ''
            if name == 'repack':
                self.norepack = False
                cont.repack(compress_mode=CompressMode[step['mode']])
                return [], ''
            if name == 'delete':
                res = cont.delete_objects([self.key_of[k] for k in step['keys']])
                return self.names(res), ''
            if name == 'loosen':
                cont.loosen_object(self.key_of[step['keys'][0]])
                return [], ''
            if name == 'import':
                src, src_hash, forms = self.source(step.get('src'), step)
                src_key = {k: hashlib.new(src_hash, self.full[k]).hexdigest() for k in UNIVERSE}
                wanted = [src_key[k] for k in step['keys']]
                iterable = {'list': list, 'tuple': tuple, 'set': set, 'generator': lambda x: (i for i in x)}[
                    step['iterable']](wanted)
                calls = []
                callback = (lambda action, value: calls.append(action)) if step['callback'] else None
                mapping = cont.import_objects(iterable, src, compress=step['z'], target_memory_bytes=step['budget'],
                                              callback=callback)
                rev = {v: k for k, v in src_key.items()}
                bad = [k for k, v in mapping.items() if self.name_of.get(v) != rev.get(k)]
                if bad:
                    return ['WRONG-MAPPING'], ''
                return sorted(rev[k] for k in mapping), ''
            if name == 'reopen':
                self.handle.close()
                self.handle = self.Container(self.folder)
                return [], ''
            if name == 'initagain':
                cont.init_container()
                return [], ''
            if name in ('has', 'get', 'meta') and step.get('single') and len(step['keys']) == 1:
                # the single-key entry points of the API (they may take their own path through the library)
                from disk_objectstore.exceptions import NotExistent  # pylint: disable=import-outside-toplevel
                nm = step['keys'][0]
                key = self.key_of[nm]
                try:
                    if name == 'has':
                        return ([nm] if cont.has_object(key) else []), ''
                    if name == 'get':
                        if step['single'] == 'stream':
                            with cont.get_object_stream(key) as stream:
                                value = stream.read()
                        else:
                            value = cont.get_object_content(key)
                        return [nm if value == self.full.table.get(nm) else f'WRONG:{nm}'], ''
                    meta = cont.get_object_meta(key)
                    return [nm if meta.size == len(self.full[nm]) else f'WRONG:{nm}'], ''
                except NotExistent:
                    return [], ''
            if name == 'has':
                flags = cont.has_objects([self.key_of[k] for k in step['keys']])
                return [k for k, f in zip(step['keys'], flags) if f], ''
            if name == 'get':
                skip = not step.get('report_missing')
                got = cont.get_objects_content([self.key_of[k] for k in step['keys']], skip_if_missing=skip)
                res = []
                for key, value in got.items():
                    nm = self.name_of.get(key, '?')
                    if value is None and not skip:
                        continue        # reported as missing (the monitor compares what was found with the map)
                    res.append(nm if value == self.full.table.get(nm) else f'WRONG:{nm}')
                return sorted(res), ''
            if name == 'meta':
                res = []
                for key, meta in cont.get_objects_meta([self.key_of[k] for k in step['keys']], skip_if_missing=True):
                    nm = self.name_of.get(key, '?')
                    res.append(nm if meta.size == len(self.full[nm]) else f'WRONG:{nm}')
                return sorted(res), ''
            if name == 'list':
                return self.names(list(cont.list_all_objects())), ''
            if name == 'listpart':       # the caller abandons the listing after its first item
                first = []
                for key in cont.list_all_objects():
                    first.append(key)
                    break
                return self.names(first), ''
        except Exception as exc:  # noqa pylint: disable=broad-except
            return [], type(exc).__name__
        raise AssertionError(f'unknown step {name}')

    # -- observation ----------------------------------------------------------------------------
    def observe(self, before_bytes, before_rows):
        state = project.project(self.folder, with_bytes=True)
        obs = {
            'loose': [{'k': self.name_of.get(k, k[:8]), 'tag': v['tag']} for k, v in sorted(state['loose'].items())],
            'rows': [{'k': self.name_of.get(r['hashkey'], r['hashkey'][:8]), 'p': r['pack_id'], 'off': r['offset'],
                      'len': r['length'], 'z': r['compressed'], 'size': r['size'], 'tag': r['tag'], 'id': r['id']}
                     for r in state['rows']],
            'packs': [{'p': p, 'len': info['len']} for p, info in sorted(state['packs'].items()) if p >= 0],   # -1: see 'tmp'
            'dups': sorted({self.name_of.get(name.partition('.')[0], name[:8]) for name in state['duplicates']}),
            'locks': sorted(int(n[:-5]) for n in os.listdir(os.path.join(self.folder, 'packs')) if n.endswith('.lock') and n[:-5].isdigit()),
            'tmp': os.path.exists(os.path.join(self.folder, 'packs', '-1')),
        }
        blobs = {p: b for p, b in state['_blobs'].items() if p >= 0}    # the temporary pack -1 is not a pack of the store
        grow = []
        for pack_id, old in before_bytes.items():
            refs = [r for r in before_rows if r['pack_id'] == pack_id]
            new = blobs.get(pack_id)
            same = new is not None and all(
                new[r['offset']:r['offset'] + r['length']] == old[r['offset']:r['offset'] + r['length']] for r in refs)
            grow.append({'p': pack_id, 'refsame': bool(same), 'len0': len(old),
                         'end0': max([r['offset'] + r['length'] for r in refs] or [0]),
                         'prefixsame': new is not None and new[:len(old)] == old})
        # raw recovery recipe for every key (C03: recoverable without the library)
        recipe_bad = []
        for name in UNIVERSE:
            raw = project.raw_read(state, self.key_of[name])
            if raw is not None and raw != self.full[name]:
                recipe_bad.append(name)
        views = self.views()
        try:
            fresh = self.Container(self.folder)
            issues = fresh.validate()
            val = 'clean' if issues.is_valid() else 'issues:' + ','.join(
                f'{k}={len(v)}' for k, v in vars(issues).items() if v)
            fresh.close()
        except Exception as exc:  # noqa pylint: disable=broad-except
            val = f'raised:{type(exc).__name__}'
        line = {'obs': obs, 'views': views, 'grow': grow, 'val': val, 'fds': fd_census(self.folder),
                'norepack': self.norepack, 'recipe_bad': recipe_bad}
        return line, blobs, state['rows']

    def views(self):
        from disk_objectstore.exceptions import NotExistent  # pylint: disable=import-outside-toplevel

        cont = self.Container(self.folder)
        keys = [self.key_of[k] for k in UNIVERSE]
        out = {}
        try:
            flags = cont.has_objects(keys)
            out['has'] = [k for k, f in zip(UNIVERSE, flags) if f]
            got = cont.get_objects_content(keys, skip_if_missing=False)
            out['got'] = [{'k': self.name_of.get(k, '?'),
                           'cls': self.full.classify_bytes(self.name_of.get(k, 'k9'), v)} for k, v in sorted(got.items())]
            single = []
            for name in UNIVERSE:
                try:
                    value = cont.get_object_content(self.key_of[name])
                    single.append({'k': name, 'cls': self.full.classify_bytes(name, value)})
                except NotExistent:
                    single.append({'k': name, 'cls': 'NotExistent'})
                except Exception as exc:  # noqa pylint: disable=broad-except
                    single.append({'k': name, 'cls': f'raised:{type(exc).__name__}'})
            out['single'] = single
            metas = []
            for key, meta in cont.get_objects_meta(keys, skip_if_missing=False):
                metas.append({'k': self.name_of.get(key, '?'), 'type': meta.type.value,
                              'size': -1 if meta.size is None else meta.size,
                              'z': bool(meta.pack_compressed), 'len': -1 if meta.pack_length is None else meta.pack_length,
                              'p': -1 if meta.pack_id is None else meta.pack_id,
                              'off': -1 if meta.pack_offset is None else meta.pack_offset})
            out['metas'] = sorted(metas, key=lambda m: m['k'])
            out['listed'] = sorted(self.names(list(cont.list_all_objects())))
            count = cont.count_objects()
            out['count'] = {'packed': count.packed, 'loose': count.loose, 'packs': count.pack_files}
            total = cont.get_total_size()
            out['total'] = {'packed': total.total_size_packed, 'packed_on_disk': total.total_size_packed_on_disk,
                            'packfiles': total.total_size_packfiles_on_disk, 'loose': total.total_size_loose}
            out['error'] = ''
        except Exception as exc:  # noqa pylint: disable=broad-except
            out.setdefault('has', [])
            out.setdefault('got', [])
            out.setdefault('single', [])
            out.setdefault('metas', [])
            out.setdefault('listed', [])
            out.setdefault('count', {'packed': -1, 'loose': -1, 'packs': -1})
            out.setdefault('total', {'packed': -1, 'packed_on_disk': -1, 'packfiles': -1, 'loose': -1})
            out['error'] = f'{type(exc).__name__}: {exc}'[:200]
        finally:
            cont.close()
        return out

    def op_record(self, step, res, raised):
        src_keys = []
        samehash = False
        if step['name'] == 'import':
            if 'srckeys' in step:
                src_keys = sorted(k for k in step['srckeys'] if k in self.full.table)
                samehash = step['samehash']
            else:
                kind, forms = SOURCES[step['src']]
                src_keys = sorted(forms)
                samehash = kind == 'same'
        return {
            'name': step['name'], 'h': step.get('h', 'h1'), 'keys': list(step.get('keys', [])), 'z': bool(step.get('z', False)),
            'mode': {'True': 'YES', 'False': 'NO'}.get(step.get('mode', ''), step.get('mode', '')),
            'noholes': bool(step.get('noholes', False)), 'twice': bool(step.get('twice', False)),
            'perpack': bool(step.get('perpack', False)), 'vacuum': bool(step.get('vacuum', False)),
            'src': src_keys, 'samehash': samehash, 'res': res, 'raised': raised,
        }

    def lock_elsewhere(self, step):
        """Is there a lock file on a pack other than the first one the handle of this step would write to?"""
        packdir = os.path.join(self.folder, 'packs')
        locks = {int(n[:-5]) for n in os.listdir(packdir) if n.endswith('.lock') and n[:-5].isdigit()}
        if not locks:
            return False
        self.current = step.get('h', 'h1')
        pack_id = getattr(self.handle, '_current_pack_id', None) or 0
        while True:
            path = os.path.join(packdir, str(pack_id))
            if not os.path.exists(path) or os.path.getsize(path) < self.cfg['target']:
                break
            pack_id += 1
        return locks != {pack_id}

    def record(self, step, res, raised):
        line, self.prev_blobs, self.prev_rows = self.observe(self.prev_blobs, self.prev_rows)
        line['op'] = self.op_record(step, res, raised)
        self.lines.append(line)

    def run(self, steps):
        lines = self.lines = []
        first, blobs, rows = self.observe({}, [])
        self.prev_blobs, self.prev_rows = blobs, rows
        first['op'] = self.op_record({'name': 'init'}, [], '')
        lines.append(first)
        for step in steps:
            if step['name'] in ('addpack', 'pack', 'import') and self.lock_elsewhere(step):
                # a stale lock on a pack other than the one this call starts with (the layout changed since the writer
                # was killed) would let the call store part of its batch before it is refused; the histories stay with
                # the clean case: the operator removes such a lock first (an explicit, recorded 'unlock' step)
                unlock = {'name': 'unlock', 'h': step.get('h', 'h1')}
                res, raised = self.call(unlock)
                self.record(unlock, res, raised)
            res, raised = self.call(step)
            self.record(step, res, raised)
        for cont in self.handles.values():
            cont.close()
        closed_fds = fd_census(self.folder, include_index=True)
        for cont, _h, _f in self.sources.values():
            cont.close()
        return lines, closed_fds


def execute_history(job):
    """Worker: run one history in scratch space; returns the trace record."""
    tid, cfg, steps = job
    table, full = contents()
    with common.scratch('sq') as folder:
        runner = Runner(folder, cfg, table, full)
        lines, closed_fds = runner.run(steps)
    for line in lines:
        line['closedfds'] = 0
    lines[-1]['closedfds'] = closed_fds
    return {'tid': tid, 'cfg': cfg, 'lines': lines, 'closed_fds': closed_fds, 'steps': steps}


# ------------------------------------------------------------------------------------------------
# TLC monitor
# ------------------------------------------------------------------------------------------------

INVARIANTS = {
    'C02': ['C02_Views', 'C02_Result'],
    'C03': ['C03_IndexOK'],
    'C09': ['C09_Dedup', 'C09_DamagedCopyRepaired', 'C09_NoHoles', 'C09_KnownNoGrowth', 'C09_ImportKnownNotWritten'],
    'C10': ['C10_Mode', 'C10_Sizes', 'C10_Totals', 'C10_Transparent'],
    'C11': ['C11_DeleteExact', 'C11_RepackCompact', 'C11_DeleteRemovesDuplicates', 'C11_CleanAfterDelete'],
    'C12': ['C12_ValidateClean'],
    'C13': ['C13_AppendOnly', 'C13_Numbering', 'C13_OnlyLastGrows', 'C13_FilledInOrder'],
    'C18': ['C18_NoFdLeak', 'C18_ClosedNoFds'],
    'C08': ['C08_HandleViews'],
    'C14': ['C14_ImportExact'],
}
INV_TO_PROP = {inv: prop for prop, invs in INVARIANTS.items() for inv in invs}


def write_cfg(path, invariants):
    with open(path, 'w', encoding='utf8') as handle:
        handle.write('SPECIFICATION Spec\n')
        for inv in invariants:
            handle.write(f'INVARIANT {inv}\n')
        handle.write('CHECK_DEADLOCK FALSE\n')


def _monitor_batch(job):
    batch, invariants, offset = job
    _table, full = contents()
    header = {'kind': 'header', 'universe': UNIVERSE, 'sizes': {k: len(v) for k, v in full.table.items()}}
    with common.scratch('monb') as workdir:
        trace_file = os.path.join(workdir, 'traces.ndjson')
        with open(trace_file, 'w', encoding='utf8') as handle:
            handle.write(json.dumps(header) + '\n')
            for trace in batch:
                handle.write(json.dumps({'tid': trace['tid'], 'cfg': trace['cfg'], 'lines': trace['lines']}) + '\n')
        cfg = os.path.join(workdir, 'SeqTrace.cfg')
        write_cfg(cfg, invariants)
        res = tlc.run('SeqTrace', cfg, workers=1, timeout=2400, args=['-continue'], env={'TRACE_FILE': trace_file})
    hits = [(inv, tid + offset, line) for inv, tid, line in parse_violations(res.output)]
    return res, hits


class _Merged:
    """Aggregate of the TLC results of the monitor batches (same interface as TlcResult where it is used)."""

    def __init__(self, results):
        self.distinct = sum(r.distinct for r in results)
        self.generated = sum(r.generated for r in results)
        self.timeout = any(r.timeout for r in results)
        self.error_lines = [ln for r in results for ln in r.error_lines]
        self.violated = [v for r in results for v in r.violated]
        self.output = '\n'.join(r.output[-3000:] for r in results if r.error_lines or r.timeout)
        self.wall = max([r.wall for r in results] or [0])
        self.returncode = max([r.returncode or 0 for r in results] or [0])
        self.parts = len(results)
        self._summary = results[0].summary() if results else {}

    def summary(self):
        out = dict(self._summary)
        out.update({'generated': self.generated, 'distinct': self.distinct, 'violated': sorted(set(self.violated)),
                    'batches': self.parts, 'wall_s': round(self.wall, 2), 'timeout': self.timeout})
        return out


def monitor(traces, invariants, workdir, batch_size=250):  # pylint: disable=unused-argument
    """Run TLC over the recorded traces (in batches, in parallel).  Returns (result, [(invariant, tid, line)])."""
    jobs = []
    for start in range(0, len(traces), batch_size):
        jobs.append((traces[start:start + batch_size], invariants, start))
    outcomes = common.pmap(_monitor_batch, jobs, procs=8)
    hits = [hit for _res, part in outcomes for hit in part]
    return _Merged([res for res, _ in outcomes]), hits


_RE_VIOL = re.compile(r'Error: Invariant (\w+) is violated')


def parse_violations(output):
    """[(invariant, tid(index in file), l)] from TLC -continue output."""
    hits = []
    chunks = re.split(r'(?=Error: Invariant \w+ is violated)', output)
    for chunk in chunks:
        m = _RE_VIOL.match(chunk)
        if not m:
            continue
        tids = re.findall(r'/\\ tid = (\d+)', chunk)
        ls = re.findall(r'/\\ l = (\d+)', chunk)
        if tids and ls:
            hits.append((m.group(1), int(tids[-1]), int(ls[-1])))
    return hits


def run_histories(report: common.Report, profile: str, count: int, length: int, props, extra_histories=(),
                  sim=None, conform=True, generator=None, handles=('h1',)):
    """Generate + execute + monitor.  ``props`` are the property ids whose invariants decide the verdict."""
    common.import_lib()
    rng = common.rng('seq', profile)
    jobs = []
    for tid in range(1, count + 1):
        steps = generator(rng, length) if generator else random_history(rng, profile, length)
        jobs.append((tid, random_config(rng, profile), steps))
    for extra in extra_histories:
        jobs.append((len(jobs) + 1, extra[0], extra[1]))
    n_aba = 0
    if handles == ('h1',):
        aba = aba_histories(rng)
        if common.tier() != 'thorough':
            gaps = [x for x in aba if x[2].startswith('gap;')]
            rest = [x for x in aba if not x[2].startswith('gap;')]
            aba = rng.sample(rest, len(rest) // 2) + gaps     # half of the family per quick run, all of it in the thorough tier
        for cfg, steps, _label in aba:
            jobs.append((len(jobs) + 1, cfg, steps))
            n_aba += 1
    # spec -> code: behaviours of the design model generated by TLC, replayed on the real library
    n_sim = 0
    if sim:
        per_group = max(1, sim[0] // 4)
        for zlevel, target in ((1, 50), (1, 120), (9, 400), (6, 10 ** 9)):
            histories, _res = simulate_histories(per_group, sim[1], zlevel, target, common.seed() * 1000 + target % 997)
            for steps in histories:
                if rng.random() < 0.3:
                    # LockStale is one successor among hundreds for TLC's simulator: the environment step is put in here;
                    # the conformance check follows it like any other step
                    steps = list(steps)
                    steps.insert(rng.randrange(len(steps) + 1), {'name': 'stalelock'})
                cfg = {'hash': rng.choice(['sha256', 'sha1']), 'prefix': rng.choice([0, 2, 3]), 'zlevel': zlevel,
                       'target': target}
                jobs.append((len(jobs) + 1, cfg, steps))
                n_sim += 1
    traces = common.pmap(execute_history, jobs)
    invariants = [inv for prop in props for inv in INVARIANTS[prop]]
    other = [inv for prop, invs in INVARIANTS.items() if prop not in props for inv in invs]
    with common.scratch('mon') as workdir:
        res, hits = monitor(traces, invariants + other, workdir)
    if res.timeout or res.error_lines and not hits:
        tlc.machinery_failure(res, 'SeqTrace monitor')
    expected_states = sum(len(t['lines']) for t in traces)
    if res.distinct != expected_states:
        print(f'MACHINERY-FAILURE: monitor consumed {res.distinct} states, expected {expected_states}')
        print(res.output[-3000:])
        raise SystemExit(2)
    by_tid = {i + 1: t for i, t in enumerate(traces)}
    seen = set()
    for inv, tid, line_no in hits:
        trace = by_tid[tid]
        prop = INV_TO_PROP.get(inv, '?')
        line = trace['lines'][line_no - 1]
        opname = line['op']['name']
        if prop not in props:
            report.note(f'invariant {inv} (property {prop}) violated in a history of this run - decided by the {prop} check')
            continue
        if (inv, tid) in seen:
            continue
        seen.add((inv, tid))
        signature = {'invariant': inv, 'op': opname, 'noholes': line['op']['noholes'], 'twice': line['op']['twice'],
                     'mode': line['op']['mode'], 'raised': line['op']['raised']}
        text = (f"{inv} violated after step {line_no - 1} ({json.dumps(line['op'])}) of history "
                f"{json.dumps(trace['steps'][:line_no - 1])} cfg={trace['cfg']}; obs={json.dumps(line['obs'])[:600]} "
                f"val={line['val']} views.error={line['views'].get('error')}")
        report.violation(signature, {'driver': 'seq', 'cfg': trace['cfg'], 'steps': trace['steps'][:line_no - 1],
                                     'invariant': inv}, text)
    ops = {}
    for trace in traces:
        for line in trace['lines'][1:]:
            ops[line['op']['name']] = ops.get(line['op']['name'], 0) + 1
    distinct = {json.dumps(t['steps'], sort_keys=True) for t in traces}
    report.add('evaluations', expected_states)
    report.add('traces_validated_against_impl', len(traces))
    report.set('distinct_nontrivial', len(distinct))
    report.add('states', res.distinct)
    report.add('transitions', res.generated)
    report.set('ops_executed', ops)
    report.set('monitor', res.summary())
    report.set('invariants_checked', invariants)
    report.set('histories_from_tlc_simulation', n_sim)
    report.set('systematic_aba_histories', n_aba)
    if conform:
        conformance(report, [t for t in traces if not t['cfg'].get('noconform')], handles=handles, list_pinned=LIST_PINNED)
    report.sample({'cfg': traces[0]['cfg'], 'steps': traces[0]['steps']})
    report.sample({'line': {k: v for k, v in traces[0]['lines'][min(3, len(traces[0]['lines']) - 1)].items()}})
    return traces


def replay(data) -> int:
    common.import_lib()
    rep = data['replay']
    trace = execute_history((1, rep['cfg'], rep['steps']))
    with common.scratch('mon') as workdir:
        res, hits = monitor([trace], [inv for invs in INVARIANTS.values() for inv in invs], workdir)
    print('replay: violated invariants:', sorted({h[0] for h in hits}) or 'none')
    return 1 if any(h[0] == rep.get('invariant') for h in hits) else 0


# ------------------------------------------------------------------------------------------------
# Conformance to the design model DosSeq (SeqConf.tla): MODEL-DRIFT reporting, never a verdict
# ------------------------------------------------------------------------------------------------


def _tla_fun(name, mapping, fmt):
    cases = ' [] '.join(f'k = "{k}" -> {fmt(v)}' for k, v in mapping.items())
    return f'{name} == [k \\in MCKeys |-> CASE {cases}]\n'


def write_conf_model(workdir, zlevel, target, handles=('h1',), list_pinned=True):
    import zlib  # pylint: disable=import-outside-toplevel

    _table, full = contents()
    sizes = {k: len(v) for k, v in full.table.items()}
    zlens = {k: common.zlen(v, zlevel) for k, v in full.table.items()}
    autoz = {}
    for k, v in full.table.items():
        comp = zlib.compressobj(level=1)
        autoz[k] = bool(v) and (len(comp.compress(v) + comp.flush()) / len(v) < 0.9)
    keys = ', '.join(f'"{k}"' for k in full.table)
    with open(os.path.join(workdir, 'MCConf.tla'), 'w', encoding='utf8') as handle:
        handle.write('---- MODULE MCConf ----\nEXTENDS SeqConf\n')
        handle.write(f'MCKeys == {{{keys}}}\n')
        handle.write(_tla_fun('MCSize', sizes, str))
        handle.write(_tla_fun('MCZLen', zlens, str))
        handle.write(_tla_fun('MCAutoZ', autoz, lambda b: 'TRUE' if b else 'FALSE'))
        handle.write('====\n')
    hs = ', '.join(f'"{h}"' for h in handles)
    with open(os.path.join(workdir, 'MCConf.cfg'), 'w', encoding='utf8') as handle:
        handle.write('SPECIFICATION CSpec\nCONSTANTS\n  Keys <- MCKeys\n  Size <- MCSize\n  ZLen <- MCZLen\n  AutoZ <- MCAutoZ\n')
        handle.write(f'  PackTarget = {target}\n  MaxPack = 40\n  Handles = {{{hs}}}\n  AppendIgnoresSeek = FALSE\n')
        handle.write(f'  ListUsesPinnedSnapshot = {"TRUE" if list_pinned else "FALSE"}\n')
        handle.write('INVARIANT NotStuck\nCHECK_DEADLOCK FALSE\n')


def _conf_group(job):
    (zlevel, target), traces, handles, list_pinned = job
    with common.scratch('conf') as workdir:
        write_conf_model(workdir, zlevel, target, handles, list_pinned)
        trace_file = os.path.join(workdir, 'traces.ndjson')
        with open(trace_file, 'w', encoding='utf8') as handle:
            handle.write(json.dumps({'kind': 'header'}) + '\n')
            for trace in traces:
                handle.write(json.dumps({'tid': trace['tid'], 'lines': [
                    {'op': line['op'], 'obs': line['obs']} for line in trace['lines']]}) + '\n')
        res = tlc.run('MCConf', 'MCConf.cfg', workers=1, timeout=900, args=['-continue'], cwd=workdir,
                      env={'TRACE_FILE': trace_file}, java_opts=[f'-DTLA-Library={common.SPEC}'])
        stuck = []
        for chunk in re.split(r'(?=Error: Invariant \w+ is violated)', res.output):
            if chunk.startswith('Error: Invariant NotStuck'):
                tids = re.findall(r'/\\ tid = (\d+)', chunk)
                ls = re.findall(r'/\\ l = (\d+)', chunk)
                if tids and ls:
                    stuck.append((int(tids[-1]), int(ls[-1])))
        bad = res.timeout or (res.error_lines and not stuck) or res.distinct == 0
        return {'group': [zlevel, target], 'stuck': [(traces[t - 1]['tid'], l) for t, l in stuck], 'states': res.distinct,
                'generated': res.generated, 'wall': res.wall, 'bad': bool(bad), 'tail': res.output[-1500:] if bad else ''}


def conformance(report: common.Report, traces, handles=('h1',), list_pinned=True):
    """Check every trace against DosSeq; report drift (never a violation).  Returns the set of drifting tids."""
    groups = {}
    for trace in traces:
        groups.setdefault((trace['cfg']['zlevel'], trace['cfg']['target']), []).append(trace)
    results = common.pmap(_conf_group, [(key, group, handles, list_pinned) for key, group in groups.items()], procs=8)
    drift = {}
    states = generated = 0
    for result in results:
        if result['bad']:
            print('MACHINERY-FAILURE: conformance run failed for group', result['group'])
            print(result['tail'])
            raise SystemExit(2)
        states += result['states']
        generated += result['generated']
        for tid, line_no in result['stuck']:
            drift[tid] = line_no
    by_tid = {t['tid']: t for t in traces}
    for tid, line_no in sorted(drift.items())[:10]:
        line = by_tid[tid]['lines'][line_no]
        print(f"MODEL-DRIFT property={report.prop} at=trace {tid} line {line_no + 1} op={json.dumps(line['op'])[:300]}")
        report.note(f"model drift: DosSeq cannot follow op {line['op']['name']} (trace {tid}, step {line_no}); "
                    f"steps={json.dumps(by_tid[tid]['steps'][:line_no])[:400]}")
    report.set('conformance', {'traces': len(traces), 'conforming': len(traces) - len(drift), 'drifting': len(drift),
                               'groups': len(groups), 'states': states})
    report.add('states', states)
    report.add('transitions', generated)
    return drift


# ------------------------------------------------------------------------------------------------
# spec -> code: histories generated by TLC (simulation of DosSeq over the real content table)
# ------------------------------------------------------------------------------------------------

SIM_KEYS = ['k1', 'k2', 'k3', 'k4', 'k5', 'k7']
SIM_SRC = ['k1', 'k3', 'k5', 'k9x']


def _set(value):
    return list(value['__set__']) if isinstance(value, dict) and '__set__' in value else list(value)


def simulate_histories(num: int, depth: int, zlevel: int, target: int, seed: int):
    """Ask TLC for ``num`` random behaviours of DosSeq (real sizes) and turn them into executable histories."""
    import zlib  # pylint: disable=import-outside-toplevel

    _table, full = contents()
    keys = SIM_KEYS
    sizes = {k: len(full[k]) for k in keys}
    zlens = {k: common.zlen(full[k], zlevel) for k in keys}
    autoz = {}
    for k in keys:
        comp = zlib.compressobj(level=1)
        autoz[k] = bool(full[k]) and (len(comp.compress(full[k]) + comp.flush()) / len(full[k]) < 0.9)
    src = [k for k in SIM_SRC if k in keys]
    histories = []
    with common.scratch('sim') as workdir:
        with open(os.path.join(workdir, 'MCSim.tla'), 'w', encoding='utf8') as handle:
            handle.write('---- MODULE MCSim ----\nEXTENDS DosSeq\n')
            handle.write('MCKeys == {%s}\n' % ', '.join(f'"{k}"' for k in keys))
            handle.write(_tla_fun('MCSize', sizes, str))
            handle.write(_tla_fun('MCZLen', zlens, str))
            handle.write(_tla_fun('MCAutoZ', autoz, lambda b: 'TRUE' if b else 'FALSE'))
            handle.write('MCSrc == {%s}\n' % ', '.join(f'"{k}"' for k in src))
            handle.write('Pairs == {<<a>> : a \\in MCKeys} \\cup {<<a, b>> : a, b \\in MCKeys} \\cup '
                         '{<<a, b, a>> : a, b \\in MCKeys} \\cup {<<a, b, c, b>> : a, b, c \\in MCKeys}\n')
            handle.write('Subs == {S \\in SUBSET MCKeys : Cardinality(S) <= 3}\n')
            handle.write('SimNext == NextWithLocks(Pairs, Subs, Subs, Subs \\cup {MCKeys}, MCSrc, {"NO", "YES", "KEEP", "AUTO"}, '
                         '{"NO", "YES", "KEEP", "AUTO"}, TRUE)\n')
            handle.write('SimSpec == Init /\\ [][SimNext]_vars\n====\n')
        with open(os.path.join(workdir, 'MCSim.cfg'), 'w', encoding='utf8') as handle:
            handle.write('SPECIFICATION SimSpec\nCONSTANTS\n  Keys <- MCKeys\n  Size <- MCSize\n  ZLen <- MCZLen\n'
                         '  AutoZ <- MCAutoZ\n')
            handle.write(f'  PackTarget = {target}\n  MaxPack = 30\n  Handles = {{"h1"}}\n  AppendIgnoresSeek = FALSE\n'
                         '  ListUsesPinnedSnapshot = FALSE\nINVARIANT Refines\nINVARIANT Inv_IndexOK\n')
        out = os.path.join(workdir, 'out')
        os.makedirs(out)
        res = tlc.run('MCSim', 'MCSim.cfg', workers=1, timeout=600, cwd=workdir,
                      args=['-simulate', f'file={out}/tr,num={num}', '-depth', str(depth), '-seed', str(seed)],
                      java_opts=[f'-DTLA-Library={common.SPEC}'])
        for name in sorted(os.listdir(out)):
            with open(os.path.join(out, name), encoding='utf8') as handle:
                text = handle.read()
            steps = []
            for m in re.finditer(r'STATE_\d+ ==\s*\n(.*?)(?=\n\n|\Z)', text, re.S):
                last = tlc.parse_state(m.group(1)).get('last')
                if not last or last['op'] == 'init':
                    continue
                step = _step_from_last(last, src)
                if step:
                    steps.append(step)
            if steps:
                histories.append(steps)
    if res.violated or res.error_lines:
        tlc.machinery_failure(res, 'DosSeq simulation')
    return histories, res


def _step_from_last(last, src):
    op = last['op']
    keys = list(last['keys'])
    if op == 'add':
        return {'name': 'add', 'keys': keys, 'via': 'bytes'}
    if op == 'addpack':
        return {'name': 'addpack', 'keys': keys, 'z': last['z'], 'noholes': last['nh'], 'twice': last['tw'], 'via': 'streams'}
    if op == 'pack':
        return {'name': 'pack', 'mode': last['mode'], 'perpack': last['pp'], 'validate': True}
    if op == 'clean':
        return {'name': 'clean', 'vacuum': False}
    if op == 'repack':
        return {'name': 'repack', 'mode': last['mode']}
    if op == 'delete':
        return {'name': 'delete', 'keys': sorted(_set(last['S']))}
    if op == 'has':
        return {'name': 'has', 'keys': sorted(_set(last['S']))}
    if op in ('list', 'listpart'):
        return {'name': op}
    if op == 'loosen':
        return {'name': 'loosen', 'keys': keys}
    if op == 'import':
        return {'name': 'import', 'keys': sorted(_set(last['S'])), 'z': last['z'], 'budget': 100, 'iterable': 'list',
                'callback': False, 'srckeys': src, 'samehash': last['sh']}
    if op in ('reopen', 'initagain', 'stalelock', 'unlock', 'tmppack', 'rmtmp'):
        return {'name': op}
    return None


def model_check(report: common.Report, depth_quick: int = 3, depth_thorough: int = 5, invariants=None, properties=None,
                config: str = 'MC_Seq'):
    """Exhaustive TLC run of the design model (MC_Seq) with the given invariants/properties."""
    depth = depth_thorough if report.tier == 'thorough' else depth_quick
    with open(os.path.join(common.SPEC, config + '.cfg'), encoding='utf8') as handle:
        base = handle.read()
    lines = []
    for line in base.splitlines():
        if line.startswith('INVARIANT') and invariants is not None and line.split()[1] not in invariants + ['TypeOK']:
            continue
        if line.startswith('PROPERTY') and properties is not None and line.split()[1] not in properties:
            continue
        if line.strip().startswith('MaxDepth'):
            line = f'  MaxDepth = {depth}'
        lines.append(line)
    with common.scratch('mc') as workdir:
        cfg = os.path.join(workdir, 'MC_Seq_run.cfg')
        with open(cfg, 'w', encoding='utf8') as handle:
            handle.write('\n'.join(lines) + '\n')
        res = tlc.run('MC_Seq', cfg, workers=16, timeout=3000)
    if not res.ok:
        if res.violated:
            print(f'DESIGN-COUNTEREXAMPLE: TLC finds {res.violated} violated in the design model {config} (depth {depth}); '
                  'this is a statement about the specification, replayed on the code by the trace checks')
            report.note(f'design model violates {res.violated}')
            print(res.output[-3000:])
        tlc.machinery_failure(res, 'MC_Seq exhaustive check')
    report.add('states', res.distinct)
    report.add('transitions', res.generated)
    report.set('design_model' if config == 'MC_Seq' else 'design_model_' + config, {'config': config, 'depth': depth, **res.summary()})
    return res
