"""Running TLC (model checking, simulation, state-graph dumps, trace validation) and reading its output."""
from __future__ import annotations

import json
import os
import re
import shutil
import subprocess
import time

from . import common

JAR = '/opt/veriftools/tla/tla2tools.jar'
CM_JAR = '/opt/veriftools/tla/CommunityModules-deps.jar'


class TlcResult:
    def __init__(self):
        self.ok = False
        self.returncode = None
        self.generated = 0
        self.distinct = 0
        self.depth = 0
        self.violated: list[str] = []  # names of violated invariants / properties
        self.error_lines: list[str] = []
        self.deadlock = False
        self.timeout = False
        self.wall = 0.0
        self.output = ''
        self.coverage: dict[str, int] = {}
        self.printed: list[str] = []
        self.cmd = ''

    def summary(self) -> dict:
        return {
            'ok': self.ok, 'generated': self.generated, 'distinct': self.distinct, 'depth': self.depth,
            'violated': self.violated, 'deadlock': self.deadlock, 'timeout': self.timeout,
            'wall_s': round(self.wall, 2), 'cmd': self.cmd,
        }


_RE_STATES = re.compile(r'(\d+) states generated, (\d+) distinct states found')
_RE_DEPTH = re.compile(r'The depth of the complete state graph search is (\d+)')
_RE_INV = re.compile(r'Invariant (\S+) is violated')
_RE_PROP = re.compile(r'(?:Action property|Temporal property|property) (\S+) (?:is|was) violated')
_RE_COV = re.compile(r'^<(\w+) line (\d+), col \d+ to line \d+, col \d+ of module (\w+)>: (\d+):(\d+)')


def run(module: str, cfg: str | None = None, workers: int | str = 'auto', timeout: int = 600, args=(), env=None,
        cwd: str | None = None, deadlock: bool = False, coverage: bool = False, metadir: str | None = None,
        java_opts=()) -> TlcResult:
    """Run TLC on spec/<module>.tla with spec/<cfg>."""
    cwd = cwd or common.SPEC
    meta = metadir or os.path.join(common.scratch_root(), f'tlc-{os.getpid()}-{time.time_ns()}')
    os.makedirs(meta, exist_ok=True)
    cmd = ['java', '-XX:+UseParallelGC', '-Xmx8g', *java_opts, '-cp', f'{JAR}:{CM_JAR}', 'tlc2.TLC', '-metadir', meta,
           '-noGenerateSpecTE', '-workers', str(workers)]
    if cfg:
        cmd += ['-config', cfg]
    if not deadlock:
        cmd += ['-deadlock']
    if coverage:
        cmd += ['-coverage', '1']
    cmd += list(args) + [module]
    res = TlcResult()
    res.cmd = ' '.join(cmd[cmd.index('tlc2.TLC'):])
    t0 = time.time()
    full_env = dict(os.environ)
    if env:
        full_env.update(env)
    try:
        proc = subprocess.run(cmd, cwd=cwd, capture_output=True, text=True, timeout=timeout, env=full_env, check=False)
        res.returncode = proc.returncode
        res.output = proc.stdout + proc.stderr
    except subprocess.TimeoutExpired as exc:
        res.timeout = True
        res.output = (exc.stdout.decode() if isinstance(exc.stdout, bytes) else (exc.stdout or ''))
        subprocess.run(['pkill', '-f', meta], check=False)
    res.wall = time.time() - t0
    shutil.rmtree(meta, ignore_errors=True)
    for line in res.output.splitlines():
        m = _RE_STATES.search(line)
        if m:
            res.generated, res.distinct = int(m.group(1)), int(m.group(2))
        m = _RE_DEPTH.search(line)
        if m:
            res.depth = int(m.group(1))
        m = _RE_INV.search(line)
        if m:
            res.violated.append(m.group(1))
        m = _RE_PROP.search(line)
        if m:
            res.violated.append(m.group(1))
        if 'Deadlock reached' in line:
            res.deadlock = True
        if line.startswith('Error:') or 'TLC threw' in line or 'Parsing or semantic analysis failed' in line \
                or '*** Errors:' in line or 'Fatal error' in line or 'Exception in thread' in line:
            res.error_lines.append(line)
        m = _RE_COV.match(line)
        if m:
            res.coverage[m.group(1)] = res.coverage.get(m.group(1), 0) + int(m.group(4))
    res.ok = (res.returncode == 0 and not res.violated and not res.error_lines and not res.timeout)
    return res


def machinery_failure(res: TlcResult, what: str):
    """TLC itself failed (not a property verdict): print and exit 2."""
    print(f'MACHINERY-FAILURE: {what}: rc={res.returncode} timeout={res.timeout}')
    print('\n'.join(res.output.splitlines()[-40:]))
    raise SystemExit(2)


# ------------------------------------------------------------------------------------------------
# TLA+ value parser (for -dump / simulate files): records, functions, sequences, sets, strings, ints
# ------------------------------------------------------------------------------------------------


class _P:
    def __init__(self, text):
        self.t = text
        self.i = 0

    def ws(self):
        while self.i < len(self.t) and self.t[self.i] in ' \t\r\n':
            self.i += 1

    def peek(self, s):
        self.ws()
        return self.t.startswith(s, self.i)

    def eat(self, s):
        self.ws()
        if not self.t.startswith(s, self.i):
            raise ValueError(f'expected {s!r} at {self.i}: {self.t[self.i:self.i + 40]!r}')
        self.i += len(s)

    def value(self):
        self.ws()
        c = self.t[self.i]
        if self.t.startswith('<<', self.i):
            self.i += 2
            items = []
            while not self.peek('>>'):
                items.append(self.value())
                if self.peek(','):
                    self.eat(',')
            self.eat('>>')
            return items
        if c == '{':
            self.i += 1
            items = []
            while not self.peek('}'):
                items.append(self.value())
                if self.peek(','):
                    self.eat(',')
            self.eat('}')
            return {'__set__': items}
        if c == '[':
            self.i += 1
            rec = {}
            while not self.peek(']'):
                self.ws()
                m = re.match(r'[A-Za-z_][A-Za-z0-9_]*', self.t[self.i:])
                save = self.i
                if m and self.t[self.i + m.end():].lstrip().startswith('|->'):
                    key = m.group(0)
                    self.i += m.end()
                    self.eat('|->')
                    rec[key] = self.value()
                else:
                    self.i = save
                    raise ValueError('only records are supported inside [...]')
                if self.peek(','):
                    self.eat(',')
            self.eat(']')
            return rec
        if c == '(':
            # function literal (a :> 1 @@ b :> 2)
            self.i += 1
            fun = {}
            while not self.peek(')'):
                key = self.value()
                self.eat(':>')
                fun[json.dumps(key) if not isinstance(key, (str, int)) else key] = self.value()
                if self.peek('@@'):
                    self.eat('@@')
            self.eat(')')
            return fun
        if c == '"':
            j = self.i + 1
            out = []
            while self.t[j] != '"':
                if self.t[j] == '\\':
                    j += 1
                out.append(self.t[j])
                j += 1
            self.i = j + 1
            return ''.join(out)
        m = re.match(r'-?\d+', self.t[self.i:])
        if m:
            self.i += m.end()
            return int(m.group(0))
        m = re.match(r'[A-Za-z_][A-Za-z0-9_]*', self.t[self.i:])
        if m:
            self.i += m.end()
            word = m.group(0)
            return {'TRUE': True, 'FALSE': False}.get(word, word)
        raise ValueError(f'cannot parse value at {self.i}: {self.t[self.i:self.i + 40]!r}')


def parse_value(text: str):
    return _P(text).value()


def parse_state(text: str) -> dict:
    """Parse '/\\ x = v /\\ y = w' into a dict."""
    state = {}
    parser = _P(text)
    while True:
        parser.ws()
        if parser.i >= len(parser.t):
            break
        if parser.peek('/\\'):
            parser.eat('/\\')
        m = re.match(r'\s*([A-Za-z_][A-Za-z0-9_]*)\s*=', parser.t[parser.i:])
        if not m:
            break
        parser.i += m.end()
        state[m.group(1)] = parser.value()
    return state


def dump_graph(module: str, cfg: str, timeout: int = 300, workers: int | str = 1):
    """Run TLC with -dump dot and return (states: id -> dict, edges: list[(src, dst, action)], init ids, result)."""
    out = os.path.join(common.scratch_root(), f'dump-{os.getpid()}-{time.time_ns()}')
    res = run(module, cfg, workers=workers, timeout=timeout, args=['-dump', 'dot,actionlabels', out])
    path = out + '.dot'
    states, edges, inits = {}, [], []
    if not os.path.exists(path):
        return states, edges, inits, res
    with open(path, encoding='utf8') as handle:
        text = handle.read()
    os.remove(path)
    for m in re.finditer(r'^(-?\d+) \[label="((?:[^"\\]|\\.)*)"(,style = filled)?', text, re.M | re.S):
        label = m.group(2).replace('\\n', '\n').replace('\\"', '"').replace('\\\\', '\\')
        states[m.group(1)] = parse_state(label)
        if m.group(3):
            inits.append(m.group(1))
    for m in re.finditer(r'^(-?\d+) -> (-?\d+) \[label="((?:[^"\\]|\\.)*)"', text, re.M):
        edges.append((m.group(1), m.group(2), m.group(3)))
    return states, edges, inits, res


def simulate(module: str, cfg: str, num: int, depth: int, seed: int, timeout: int = 300):
    """tlc -simulate: returns a list of behaviours, each a list of (action_name, state dict)."""
    out = os.path.join(common.scratch_root(), f'sim-{os.getpid()}-{time.time_ns()}')
    os.makedirs(out)
    res = run(module, cfg, workers=1, timeout=timeout,
              args=['-simulate', f'file={out}/tr,num={num}', '-depth', str(depth), '-seed', str(seed)])
    behaviours = []
    for name in sorted(os.listdir(out)):
        with open(os.path.join(out, name), encoding='utf8') as handle:
            text = handle.read()
        behaviour = []
        for m in re.finditer(r'\\\* <?(\w+)[^\n]*\nSTATE_\d+ ==\s*\n(.*?)(?=\n\n|\Z)', text, re.S):
            behaviour.append((m.group(1), parse_state(m.group(2))))
        if behaviour:
            behaviours.append(behaviour)
    shutil.rmtree(out, ignore_errors=True)
    return behaviours, res


def sany(module_path: str) -> tuple[bool, str]:
    proc = subprocess.run(['java', '-cp', f'{JAR}:{CM_JAR}', 'tla2sany.SANY', module_path], capture_output=True,
                          text=True, cwd=os.path.dirname(module_path), check=False)
    out = proc.stdout + proc.stderr
    ok = proc.returncode == 0 and 'Semantic errors' not in out and 'Parse Error' not in out and '*** Errors' not in out
    return ok, out
