"""The unbounded argument: Apalache discharges the inductive invariant of DosProto; TLC checks that Dos refines DosProto."""
from __future__ import annotations

import os
import subprocess
import time

from . import common, tlc

OBLIGATIONS = [
    ('Init => IndInv', ['--cinit=ConstInit', '--init=Init', '--inv=IndInv', '--length=0'], True),
    ('IndInv /\\ Next => IndInv\'', ['--cinit=ConstInit', '--init=IndInit', '--inv=IndInv', '--length=1'], True),
    ('IndInv => Safe', ['--cinit=ConstInit', '--init=IndInit', '--inv=Safe', '--length=0'], True),
    ('IndInv => Dur', ['--cinit=ConstInit', '--init=IndInit', '--inv=Dur', '--length=0'], True),
    ('deviation UnlinkEarly breaks the inductive step', ['--cinit=ConstInitDev', '--init=IndInit', '--inv=IndInv', '--length=1'], False),
]


def _apalache(job):
    name, args, expect_ok = job
    out_dir = os.path.join(common.scratch_root(), f'apa-{os.getpid()}-{time.time_ns()}')
    t0 = time.time()
    try:
        proc = subprocess.run(['apalache-mc', 'check', *args, f'--out-dir={out_dir}', 'DosProto.tla'], cwd=common.SPEC,
                              capture_output=True, text=True, timeout=1200, check=False)
        text = proc.stdout + proc.stderr
        ok = 'EXITCODE: OK' in text
        failed = 'The outcome is: Error' in text
    except subprocess.TimeoutExpired:
        text, ok, failed = 'timeout', False, False
    subprocess.run(['rm', '-rf', out_dir], check=False)
    good = ok if expect_ok else failed
    return name, good, round(time.time() - t0, 1), text[-800:] if not good else ''


def _refine(cfg):
    res = tlc.run('MC_Refine', cfg + '.cfg', workers=6, timeout=2400)
    return cfg, res.ok, res.distinct, res.generated, round(res.wall, 1), res.output[-1500:] if not res.ok else ''


def check(report: common.Report, refinement: bool):
    results = common.pmap(_apalache, OBLIGATIONS, procs=5)
    for name, good, wall, tail in results:
        if not good:
            print(f'MACHINERY-FAILURE: Apalache obligation "{name}" did not come out as expected')
            print(tail)
            raise SystemExit(2)
    info = {'module': 'DosProto.tla', 'tool': 'apalache-mc 0.58 (symbolic, length-1 inductive step)',
            'obligations': [{'name': n, 'wall_s': w} for n, _g, w, _t in results], 'discharged': len(results)}
    if refinement:
        outs = common.pmap(_refine, ['MC_Refine_ppTRUE', 'MC_Refine_ppFALSE'], procs=2)
        for cfg, ok, distinct, generated, wall, tail in outs:
            if not ok:
                print(f'MACHINERY-FAILURE: Dos does not refine DosProto on {cfg}')
                print(tail)
                raise SystemExit(2)
            report.add('states', distinct)
            report.add('transitions', generated)
        info['refinement'] = [{'config': c, 'distinct': d, 'generated': g, 'wall_s': w} for c, _ok, d, g, w, _t in outs]
    report.set('unbounded_argument', info)
