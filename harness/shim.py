"""External interposition layer: observe, schedule, kill and fault every I/O-relevant call of the library.

Nothing in /repo is edited.  ``install()`` replaces, process-wide, the Python-level entry points through
which the library reaches the file system (``builtins.open``/``io.open``, selected ``os`` functions,
``fcntl.fcntl``) by thin wrappers and registers SQLAlchemy engine listeners.  A wrapper does nothing
unless tracing is enabled *and* the path lies under a registered container root, so the harness' own
I/O (projection, scratch management) and the interpreter's I/O are not affected.

Files opened under a root are ``TracedFileIO`` objects inside the normal ``io.Buffered*`` stack, so what
is observed are the *kernel-level* calls (``write(2)`` when the user-space buffer is flushed,
``ftruncate``, ``lseek``, ``close``): exactly the points at which the on-disk state changes.

Every observed call is an *event*: ``handler.pre(ev)`` runs before the real call (it may switch to
another actor, kill the process, or raise an injected error), ``handler.post(ev)`` after it.
"""
from __future__ import annotations

import builtins
import errno
import io
import os
import sys

_REAL = {}
_INSTALLED = False


class Root:
    """A registered container folder."""

    def __init__(self, path: str, label: str, prefix_len: int, contents):
        self.path = os.path.abspath(path)
        self.prefix = self.path + '/'
        self.label = label
        self.prefix_len = prefix_len
        self.contents = contents
        self.sbx_names: dict[str, str] = {}

    def obj(self, rel: str) -> str:
        """Abstract name of a path relative to the root."""
        parts = rel.split('/') if rel else ['']
        head = parts[0]
        if head == 'loose':
            if len(parts) == 1:
                return 'dir:loose'
            if self.prefix_len and len(parts) == 2:
                return f'dir:loose/{parts[1]}'
            key = ''.join(parts[1:])
            name = self.contents.name_of_key(key) if self.contents else key
            return f'loose:{name if name != "k?" else key[:12]}'
        if head == 'packs':
            if len(parts) == 1:
                return 'dir:packs'
            name = parts[1]
            if name.endswith('.lock'):
                return f'lock:{name[:-5]}'
            return f'pack:{name}'
        if head == 'sandbox':
            if len(parts) == 1:
                return 'dir:sandbox'
            return self.sbx_names.setdefault(parts[1], f'sbx:{len(self.sbx_names) + 1}')
        if head == 'duplicates':
            if len(parts) == 1:
                return 'dir:duplicates'
            key, _, _ = parts[1].partition('.')
            name = self.contents.name_of_key(key) if self.contents else key
            return f'dup:{name}'
        if head.startswith('packs.idx'):
            return 'idx' + head[len('packs.idx'):]
        if head == 'config.json':
            return 'config'
        if head == '':
            return 'dir:root'
        return f'other:{rel}'


class Handler:
    """Default handler: records events."""

    def __init__(self):
        self.events = []

    def pre(self, ev):  # pylint: disable=unused-argument
        pass

    def post(self, ev):
        self.events.append(ev)


class Shim:
    def __init__(self):
        self.roots: list[Root] = []
        self.enabled = False
        self.handler = Handler()
        self.fdmap: dict[int, tuple[Root, str]] = {}
        self.seq = 0
        self.actor_of = lambda: 'a'
        self.unobserved = 0

    # ---------------------------------------------------------------- roots / paths
    def add_root(self, path, label='c', prefix_len=2, contents=None) -> Root:
        root = Root(str(path), label, prefix_len, contents)
        self.roots.append(root)
        return root

    def clear(self):
        self.roots = []
        self.fdmap = {}
        self.seq = 0
        self.enabled = False
        self.handler = Handler()

    def locate(self, path):
        """(root, rel) if ``path`` is inside a registered root, else None."""
        if not self.enabled or isinstance(path, int):
            return None
        try:
            text = os.fspath(path)
        except TypeError:
            return None
        if isinstance(text, bytes):
            text = os.fsdecode(text)
        if not text.startswith('/'):
            text = os.path.abspath(text)
        for root in self.roots:
            if text == root.path:
                return root, ''
            if text.startswith(root.prefix):
                return root, text[len(root.prefix):]
        return None

    # ---------------------------------------------------------------- events
    def event(self, op, root: Root, rel: str, **extra):
        self.seq += 1
        ev = {'n': self.seq, 'a': self.actor_of(), 'c': root.label, 'op': op, 'obj': root.obj(rel), 'rel': rel}
        ev.update(extra)
        return ev

    def call(self, ev, func, *args, **kwargs):
        """pre -> real call -> post, recording the outcome."""
        self.handler.pre(ev)
        try:
            result = func(*args, **kwargs)
        except BaseException as exc:  # noqa
            ev['exc'] = type(exc).__name__
            self.handler.post(ev)
            raise
        ev['res'] = 'ok'
        self.handler.post(ev)
        return result


SHIM = Shim()


class TracedFileIO(io.FileIO):
    """A raw file whose kernel-level mutations are events."""

    def __init__(self, path, mode, root: Root, rel: str):
        super().__init__(path, mode)
        self._vroot = root
        self._vrel = rel
        self._vappend = 'a' in mode
        self._vwritable = any(ch in mode for ch in 'wax+')
        SHIM.fdmap[self.fileno()] = (root, rel)

    def write(self, data):
        if not SHIM.enabled:
            return super().write(data)
        ev = SHIM.event('write', self._vroot, self._vrel, len=len(data), append=self._vappend)
        if getattr(SHIM.handler, 'want_data', False):
            ev['data'] = bytes(data)
        SHIM.handler.pre(ev)
        ev.pop('data', None)
        try:
            if ev.get('partial') is not None:
                # torn write requested by the crash driver: only a prefix reaches the kernel
                result = super().write(bytes(data)[:ev['partial']])
            else:
                result = super().write(data)
        except BaseException as exc:  # noqa
            ev['exc'] = type(exc).__name__
            SHIM.handler.post(ev)
            raise
        ev['res'] = 'ok'
        try:
            ev['end'] = os.fstat(self.fileno()).st_size
        except OSError:
            pass
        SHIM.handler.post(ev)
        return result

    def truncate(self, size=None):
        if not SHIM.enabled:
            return super().truncate(size)
        pos = self.tell() if size is None else size
        ev = SHIM.event('truncate', self._vroot, self._vrel, to=pos)
        return SHIM.call(ev, super().truncate, size)

    def seek(self, pos, whence=0):
        result = super().seek(pos, whence)
        if SHIM.enabled and self._vwritable and whence == 0:
            ev = SHIM.event('lseek', self._vroot, self._vrel, to=result)
            ev['res'] = 'ok'
            ev['quiet'] = True
            SHIM.handler.post(ev)
        return result

    def close(self):
        if self.closed:
            return super().close()
        fd = self.fileno()
        if not SHIM.enabled:
            SHIM.fdmap.pop(fd, None)
            return super().close()
        ev = SHIM.event('close', self._vroot, self._vrel, w=self._vwritable)
        SHIM.handler.pre(ev)
        try:
            result = super().close()
        finally:
            SHIM.fdmap.pop(fd, None)
            ev['res'] = 'ok'
            SHIM.handler.post(ev)
        return result


def _traced_open(file, mode='r', buffering=-1, encoding=None, errors=None, newline=None, closefd=True, opener=None):
    loc = SHIM.locate(file) if SHIM.enabled else None
    if loc is None or opener is not None or not closefd:
        return _REAL['open'](file, mode, buffering, encoding, errors, newline, closefd, opener)
    root, rel = loc
    ev = SHIM.event('open', root, rel, mode=mode)
    SHIM.handler.pre(ev)
    binary = 'b' in mode
    rawmode = ''.join(ch for ch in mode if ch in 'rwxa+')
    try:
        raw = TracedFileIO(os.fspath(file), rawmode, root, rel)
    except BaseException as exc:  # noqa
        ev['exc'] = type(exc).__name__
        SHIM.handler.post(ev)
        raise
    ev['res'] = 'ok'
    SHIM.handler.post(ev)
    if buffering == 0:
        return raw
    bufsize = io.DEFAULT_BUFFER_SIZE if buffering < 0 else buffering
    if '+' in rawmode:
        buffered = io.BufferedRandom(raw, bufsize)
    elif any(ch in rawmode for ch in 'wxa'):
        buffered = io.BufferedWriter(raw, bufsize)
    else:
        buffered = io.BufferedReader(raw, bufsize)
    if binary:
        return buffered
    text = io.TextIOWrapper(buffered, encoding, errors, newline, buffering == 1)
    text.mode = mode
    return text


def _wrap_path1(name, op, result_field=None):
    """Wrap an os function whose first argument is a path."""
    real = getattr(os, name)
    _REAL[name] = real

    def wrapper(path, *args, **kwargs):
        loc = SHIM.locate(path) if SHIM.enabled else None
        if loc is None or kwargs.get('dir_fd') is not None:
            return real(path, *args, **kwargs)
        root, rel = loc
        ev = SHIM.event(op, root, rel)
        SHIM.handler.pre(ev)
        try:
            result = real(path, *args, **kwargs)
        except BaseException as exc:  # noqa
            ev['exc'] = type(exc).__name__
            SHIM.handler.post(ev)
            raise
        ev['res'] = 'ok'
        if result_field == 'size':
            ev['size'] = result.st_size
        elif result_field == 'names':
            ev['names'] = len(result)
        SHIM.handler.post(ev)
        return result

    wrapper.__name__ = name
    setattr(os, name, wrapper)


def _wrap_path2(name, op):
    """Wrap an os function taking (src, dst)."""
    real = getattr(os, name)
    _REAL[name] = real

    def wrapper(src, dst, *args, **kwargs):
        loc_src = SHIM.locate(src) if SHIM.enabled else None
        loc_dst = SHIM.locate(dst) if SHIM.enabled else None
        if (loc_src is None and loc_dst is None) or kwargs.get('src_dir_fd') is not None:
            return real(src, dst, *args, **kwargs)
        root, rel = loc_dst or loc_src
        ev = SHIM.event(op, root, rel)
        if loc_src is not None:
            ev['src'] = loc_src[0].obj(loc_src[1])
            ev['srcrel'] = loc_src[1]
        return SHIM.call(ev, real, src, dst, *args, **kwargs)

    wrapper.__name__ = name
    setattr(os, name, wrapper)


def _install_os():
    for name, op in (('unlink', 'unlink'), ('remove', 'unlink'), ('mkdir', 'mkdir'), ('rmdir', 'rmdir')):
        _wrap_path1(name, op)
    _wrap_path1('listdir', 'listdir', 'names')
    _wrap_path1('stat', 'stat', 'size')
    for name, op in (('rename', 'rename'), ('replace', 'replace'), ('link', 'link')):
        _wrap_path2(name, op)

    real_open = os.open
    _REAL['os.open'] = real_open

    def os_open(path, flags, mode=0o777, *, dir_fd=None):
        loc = SHIM.locate(path) if SHIM.enabled and dir_fd is None else None
        if dir_fd is not None:
            return real_open(path, flags, mode, dir_fd=dir_fd)
        fd = real_open(path, flags, mode)
        if loc is not None:
            SHIM.fdmap[fd] = loc
        return fd

    os.open = os_open

    real_close = os.close
    _REAL['os.close'] = real_close

    def os_close(fd):
        SHIM.fdmap.pop(fd, None)
        return real_close(fd)

    os.close = os_close

    for name in ('fsync', 'fdatasync'):
        real = getattr(os, name)
        _REAL[name] = real

        def sync(fd, real=real):
            if not isinstance(fd, int):
                fd = fd.fileno()
            loc = SHIM.fdmap.get(fd) if SHIM.enabled else None
            if loc is None:
                return real(fd)
            root, rel = loc
            ev = SHIM.event('fsync', root, rel)
            try:
                ev['ino'] = os.fstat(fd).st_ino
                ev['size'] = os.fstat(fd).st_size
            except OSError:
                pass
            return SHIM.call(ev, real, fd)

        setattr(os, name, sync)

    try:
        import fcntl  # pylint: disable=import-outside-toplevel
    except ImportError:
        return
    real_fcntl = fcntl.fcntl
    _REAL['fcntl'] = real_fcntl
    full = getattr(fcntl, 'F_FULLFSYNC', None)

    def traced_fcntl(fd, cmd, arg=0):
        if not isinstance(fd, int):
            fd = fd.fileno()
        loc = SHIM.fdmap.get(fd) if SHIM.enabled else None
        if loc is None:
            return real_fcntl(fd, cmd, arg)
        root, rel = loc
        if full is not None and cmd == full:
            ev = SHIM.event('fsync', root, rel, full=True)
            return SHIM.call(ev, real_fcntl, fd, cmd, arg)
        ev = SHIM.event('fcntl', root, rel, cmd=int(cmd))
        result = SHIM.call(ev, real_fcntl, fd, cmd, arg)
        if cmd == fcntl.F_DUPFD and isinstance(result, int):
            ev['newfd'] = result
        return result

    fcntl.fcntl = traced_fcntl


def _install_sql():
    from sqlalchemy import event  # pylint: disable=import-outside-toplevel
    from sqlalchemy.engine import Engine  # pylint: disable=import-outside-toplevel
    from sqlalchemy.pool import Pool  # pylint: disable=import-outside-toplevel

    def locate_engine(conn):
        try:
            database = conn.engine.url.database
        except Exception:  # noqa
            return None
        return SHIM.locate(database) if database else None

    @event.listens_for(Engine, 'before_cursor_execute')
    def before_cursor_execute(conn, cursor, statement, parameters, context, executemany):  # noqa
        loc = locate_engine(conn) if SHIM.enabled else None
        if loc is None:
            return
        kind = statement.strip().split(None, 1)[0].upper()
        if kind == 'INSERT' and 'OR IGNORE' in statement.upper():
            kind = 'INSERT_OR_IGNORE'
        ev = SHIM.event('sql', loc[0], loc[1], kind=kind, conn=id(conn.connection.dbapi_connection) % 100000)
        if kind in ('INSERT', 'INSERT_OR_IGNORE', 'UPDATE', 'DELETE'):
            ev['nparams'] = len(parameters) if executemany else 1
        conn.info['verif_ev'] = ev
        SHIM.handler.pre(ev)

    @event.listens_for(Engine, 'after_cursor_execute')
    def after_cursor_execute(conn, cursor, statement, parameters, context, executemany):  # noqa
        ev = conn.info.pop('verif_ev', None)
        if ev is None:
            return
        ev['res'] = 'ok'
        SHIM.handler.post(ev)

    @event.listens_for(Engine, 'handle_error')
    def handle_error(context):  # noqa
        conn = context.connection
        if conn is None:
            return
        ev = conn.info.pop('verif_ev', None)
        if ev is None:
            return
        ev['exc'] = type(context.original_exception).__name__
        SHIM.handler.post(ev)

    @event.listens_for(Engine, 'commit')
    def commit(conn):
        loc = locate_engine(conn) if SHIM.enabled else None
        if loc is None:
            return
        ev = SHIM.event('sql', loc[0], loc[1], kind='COMMIT', conn=id(conn.connection.dbapi_connection) % 100000)
        SHIM.handler.pre(ev)
        ev['res'] = 'issued'
        SHIM.handler.post(ev)

    @event.listens_for(Engine, 'rollback')
    def rollback(conn):
        loc = locate_engine(conn) if SHIM.enabled else None
        if loc is None:
            return
        ev = SHIM.event('sql', loc[0], loc[1], kind='ROLLBACK', conn=id(conn.connection.dbapi_connection) % 100000)
        ev['res'] = 'ok'
        ev['quiet'] = True
        SHIM.handler.post(ev)

    @event.listens_for(Pool, 'checkin')
    def checkin(dbapi_connection, record):  # noqa
        if not SHIM.enabled or not SHIM.roots:
            return
        ev = SHIM.event('sqlrelease', SHIM.roots[0], 'packs.idx', conn=id(dbapi_connection) % 100000)
        ev['res'] = 'ok'
        ev['quiet'] = True
        SHIM.handler.post(ev)


def install():
    """Install the wrappers (idempotent).  Must run before the library is imported."""
    global _INSTALLED  # pylint: disable=global-statement
    if _INSTALLED:
        return SHIM
    _REAL['open'] = builtins.open
    builtins.open = _traced_open
    io.open = _traced_open
    _install_os()
    _install_sql()
    _INSTALLED = True
    return SHIM


def real(name):
    return _REAL[name]


def inject_oserror(ev):
    return OSError(errno.EIO, f"injected I/O error at {ev['op']} {ev['obj']}")
