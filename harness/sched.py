"""Deterministic scheduler: actors are greenlets, every shared-state I/O call of the library is a yield point.

A schedule is a list of segments ``(actor, n)``: run ``actor`` for ``n`` of its yield points (``None`` = to its end);
when the list is exhausted the remaining actors run to completion in a fixed order.  The same schedule always
produces the same execution (no threads, no sleeps, no wall clock).
"""
from __future__ import annotations

import greenlet

from . import shim


def shared(ev) -> bool:
    """Does this call touch state that other actors can observe or change?"""
    if ev.get('quiet'):
        return False
    obj = ev['obj']
    op = ev['op']
    if obj.startswith('sbx:') or obj == 'config' or obj.startswith('dir:sandbox') or obj == 'dir:root':
        return False
    if op == 'close' and not ev.get('w'):
        return False
    if op == 'stat' and obj.startswith('dir:'):
        return False
    if op == 'sql' and ev.get('kind') in ('PRAGMA',):
        return False
    if op in ('fsync',) and obj.startswith('dir:'):
        return False
    if obj.startswith('other:') or obj.startswith('idx') and op == 'stat':
        return False
    return True


class Actor:
    def __init__(self, name, func):
        self.name = name
        self.func = func
        self.glet = None
        self.done = False
        self.steps = 0
        self.error = None
        self.result = None


class Scheduler(shim.Handler):
    def __init__(self, actors, segments, limit=20000):
        super().__init__()
        self.actors = {a.name: a for a in actors}
        self.order = [a.name for a in actors]
        self.segments = list(segments)
        self.main = greenlet.getcurrent()
        self.current = None
        self.trace = []  # global sequence of logical events (dicts)
        self.limit = limit
        self.total = 0
        self.switches = []

    # called by the library (inside an actor greenlet) before every observed call
    def pre(self, ev):
        actor = self.current
        if actor is None or greenlet.getcurrent() is self.main:
            return
        if not shared(ev):
            return
        actor.steps += 1
        self.total += 1
        ev['step'] = actor.steps
        self.main.switch()

    def post(self, ev):
        if self.current is not None and shared(ev):
            self.trace.append({'a': self.current.name, 'e': 'io', 'op': ev['op'], 'obj': ev['obj'],
                               'kind': ev.get('kind', ''), 'res': ev.get('exc', 'ok'), 'src': ev.get('src', '')})

    def log(self, **record):
        record.setdefault('a', self.current.name if self.current else '-')
        self.trace.append(record)

    def _start(self, actor):
        def body():
            try:
                actor.result = actor.func(self)
            except BaseException as exc:  # noqa pylint: disable=broad-except
                actor.error = exc
                self.trace.append({'a': actor.name, 'e': 'crashed', 'exc': type(exc).__name__, 'msg': str(exc)[:200]})
            finally:
                actor.done = True
        actor.glet = greenlet.greenlet(body, parent=self.main)

    def _resume(self, actor):
        self.current = actor
        actor.glet.switch()
        self.current = None

    def run(self):
        sh = shim.SHIM
        sh.actor_of = lambda: self.current.name if self.current else '-'
        for actor in self.actors.values():
            self._start(actor)
        sh.enabled = True
        try:
            for name, count in self.segments:
                actor = self.actors[name]
                done = 0
                # one resume = run the actor up to (and park it before) its next shared-state call
                while not actor.done and (count is None or done < count):
                    self._resume(actor)
                    done += 1
                    if self.total > self.limit:
                        raise RuntimeError('scheduler step limit exceeded')
            for name in self.order:
                actor = self.actors[name]
                while not actor.done:
                    self._resume(actor)
                    if self.total > self.limit:
                        raise RuntimeError('scheduler step limit exceeded')
        finally:
            sh.enabled = False
            sh.actor_of = lambda: 'a'
        return self.trace
