SPECIFICATION Spec
CONSTANTS
  N = 1
  MaxPos = 8
  ReadSizes <- MCReadSizes
  SeekTargets <- MCSeekTargets
INVARIANT TypeOK
INVARIANT ReadsInside
INVARIANT PositionSane
PROPERTY InRangeLikeMemoryFile
PROPERTY RejectedKeepsPosition
