SPECIFICATION Spec
CONSTANTS Inputs <- SortedInputs
INVARIANT ClassifiesExactlyOnce
INVARIANT RejectsExactlyBadInput
INVARIANT PrefixCorrect
