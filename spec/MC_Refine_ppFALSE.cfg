SPECIFICATION Spec
CONSTANTS
  Keys <- MCKeys
  Initial <- MCInitial
  InitialPacked <- MCPacked
  WriterAdds <- MCAdds
  ReaderWants <- MCWants
  MaxRetries = 3
  SeekKey = "none"
  ReaderPinned = FALSE
  PerPack = FALSE
  AllowCrash = TRUE
  AllowPower = FALSE
  AllowFault = TRUE
  UnlinkBeforeCommit = FALSE
  CommitBeforeFlush = FALSE
  NoFallback = FALSE
  SkipPackFsync = FALSE
  RenameBeforeFsync = FALSE






PROPERTY ProtoSpec
INVARIANT ProtoInv
