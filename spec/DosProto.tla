------------------------------ MODULE DosProto ------------------------------
(***************************************************************************)
(* The pack / clean / loose-write protocol at its essence, unbounded in    *)
(* the number of writer calls and packer rounds, for an inductive argument *)
(* (Apalache): contents are keys; a loose file is present or not (and its  *)
(* data durable or not); an extent of the pack is visible to the kernel    *)
(* or not, durable or not; the index is a set of committed keys.           *)
(*                                                                         *)
(* Writers (any number, any keys): write + fsync in the sandbox, check the *)
(* destination, rename (or return because a copy exists / existed), ack.   *)
(* The packer loops forever: list + select, copy into its buffer, flush,   *)
(* fsync, commit, optionally unlink what it packed; clean: select, unlink  *)
(* what the index knows.                                                   *)
(*                                                                         *)
(* IndInv is inductive and implies                                         *)
(*   Safe: every acknowledged content is reachable (loose file, or index   *)
(*         entry over kernel-visible bytes)                    (C04/C05)   *)
(*   Dur:  every visible content is durable                     (C06)      *)
(***************************************************************************)
EXTENDS Integers, FiniteSets

CONSTANTS
    \* @type: Set(Str);
    Keys,
    \* @type: Bool;
    UnlinkEarly,     \* deviation: per-pack unlinks before the commit
    \* @type: Set(Str);
    Loose0,          \* contents stored loose before anything starts
    \* @type: Set(Str);
    Packed0          \* contents already packed before anything starts

VARIABLES
    \* @type: Set(Str);
    loose,      \* loose files present
    \* @type: Set(Str);
    lsync,      \* loose files whose data is durable
    \* @type: Set(Str);
    sb,         \* sandbox files that are written and fsynced
    \* @type: Set(Str);
    wsaw,       \* contents some writer is about to acknowledge (it saw a copy, or it renamed its own)
    \* @type: Set(Str);
    vis,        \* contents whose extent is visible in the pack file (flushed)
    \* @type: Set(Str);
    dur,        \* contents whose extent is durable (fsynced)
    \* @type: Set(Str);
    idx,        \* committed index entries
    \* @type: Set(Str);
    ptodo,      \* what the packer is packing in this round
    \* @type: Set(Str);
    pclean,     \* what the cleaner is going to unlink
    \* @type: Str;
    ppc,        \* "idle" | "copy" | "flushed" | "synced" | "committed" | "clean"
    \* @type: Set(Str);
    acked

vars == <<loose, lsync, sb, wsaw, vis, dur, idx, ptodo, pclean, ppc, acked>>

Init == /\ loose = Loose0 /\ lsync = Loose0 /\ sb = {} /\ wsaw = {} /\ vis = Packed0 /\ dur = Packed0 /\ idx = Packed0
        /\ ptodo = {} /\ pclean = {} /\ ppc = "idle" /\ acked = Loose0 \union Packed0

(* ---- writers ---- *)
WFsync(k)  == sb' = sb \union {k} /\ UNCHANGED <<loose, lsync, wsaw, vis, dur, idx, ptodo, pclean, ppc, acked>>
WSawCopy(k) == /\ k \in loose                        \* exists(): a copy is there; it will be hashed and kept
               /\ wsaw' = wsaw \union {k}
               /\ UNCHANGED <<loose, lsync, sb, vis, dur, idx, ptodo, pclean, ppc, acked>>
WRename(k) == /\ k \in sb /\ k \notin loose           \* exists() said no: rename the (synced) sandbox file
              /\ loose' = loose \union {k} /\ lsync' = lsync \union {k} /\ sb' = sb \ {k}
              /\ wsaw' = wsaw \union {k}              \* from here on the writer is going to return the key
              /\ UNCHANGED <<vis, dur, idx, ptodo, pclean, ppc, acked>>
WDrop(k)   == sb' = sb \ {k} /\ UNCHANGED <<loose, lsync, wsaw, vis, dur, idx, ptodo, pclean, ppc, acked>>
WAck(k)    == /\ k \in wsaw                            \* return the key (the copy may have been packed and removed since)
              /\ acked' = acked \union {k}
              /\ wsaw' \in SUBSET wsaw /\ sb' \in SUBSET sb
              /\ UNCHANGED <<loose, lsync, vis, dur, idx, ptodo, pclean, ppc>>

(* ---- packer ---- *)
PStart  == /\ ppc = "idle" /\ ptodo' \in SUBSET (loose \ idx) /\ ppc' = "copy"    \* the listing may miss recent files
           /\ UNCHANGED <<loose, lsync, sb, wsaw, vis, dur, idx, pclean, acked>>
PFlush  == /\ ppc = "copy" /\ vis' = vis \union ptodo /\ ppc' = "flushed"
           /\ UNCHANGED <<loose, lsync, sb, wsaw, dur, idx, ptodo, pclean, acked>>
PFsync  == /\ ppc = "flushed" /\ dur' = dur \union ptodo /\ ppc' = "synced"
           /\ UNCHANGED <<loose, lsync, sb, wsaw, vis, idx, ptodo, pclean, acked>>
PCommit == /\ ppc = "synced" /\ idx' = idx \union ptodo /\ ppc' = "committed"
           /\ UNCHANGED <<loose, lsync, sb, wsaw, vis, dur, ptodo, pclean, acked>>
PUnlink(k) == /\ (ppc = "committed" \/ (UnlinkEarly /\ ppc = "synced")) /\ k \in ptodo      \* clean_loose_per_pack
              /\ loose' = loose \ {k} /\ lsync' = lsync \ {k}
              /\ UNCHANGED <<sb, wsaw, vis, dur, idx, ptodo, pclean, ppc, acked>>
CStart  == /\ ppc \in {"committed", "idle"} /\ pclean' \in SUBSET (loose \intersect idx) /\ ppc' = "clean" /\ ptodo' = {}
           /\ UNCHANGED <<loose, lsync, sb, wsaw, vis, dur, idx, acked>>
CUnlink(k) == /\ ppc = "clean" /\ k \in pclean
              /\ loose' = loose \ {k} /\ lsync' = lsync \ {k} /\ pclean' = pclean \ {k}
              /\ UNCHANGED <<sb, wsaw, vis, dur, idx, ptodo, ppc, acked>>
CDone   == /\ ppc = "clean" /\ ppc' = "idle" /\ pclean' = {}
           /\ UNCHANGED <<loose, lsync, sb, wsaw, vis, dur, idx, ptodo, acked>>

Next == \/ \E k \in Keys : WFsync(k) \/ WSawCopy(k) \/ WRename(k) \/ WDrop(k) \/ WAck(k) \/ PUnlink(k) \/ CUnlink(k)
        \/ PStart \/ PFlush \/ PFsync \/ PCommit \/ CStart \/ CDone

-----------------------------------------------------------------------------
TypeOK == /\ loose \subseteq Keys /\ lsync \subseteq Keys /\ sb \subseteq Keys /\ wsaw \subseteq Keys
          /\ vis \subseteq Keys /\ dur \subseteq Keys /\ idx \subseteq Keys /\ ptodo \subseteq Keys /\ pclean \subseteq Keys
          /\ acked \subseteq Keys /\ ppc \in {"idle", "copy", "flushed", "synced", "committed", "clean"}

Safe == acked \subseteq (loose \union (idx \intersect vis))
Dur  == loose \subseteq lsync /\ idx \subseteq dur

IndInv ==
    /\ TypeOK
    /\ idx \subseteq dur /\ dur \subseteq vis
    /\ loose \subseteq lsync
    /\ (acked \union wsaw) \subseteq (loose \union idx)
    /\ pclean \subseteq idx
    /\ (ppc = "committed") => ptodo \subseteq idx
    /\ (ppc = "synced") => ptodo \subseteq dur
    /\ (ppc = "flushed") => ptodo \subseteq vis
    /\ (ppc \in {"idle", "clean"}) => ptodo = {}
    /\ (ppc # "clean") => pclean = {}

(* the same as a predicate Apalache can start from: every variable is first drawn from its type *)
IndInit ==
    /\ loose \in SUBSET Keys /\ lsync \in SUBSET Keys /\ sb \in SUBSET Keys /\ wsaw \in SUBSET Keys
    /\ vis \in SUBSET Keys /\ dur \in SUBSET Keys /\ idx \in SUBSET Keys /\ ptodo \in SUBSET Keys /\ pclean \in SUBSET Keys
    /\ acked \in SUBSET Keys /\ ppc \in {"idle", "copy", "flushed", "synced", "committed", "clean"}
    /\ IndInv

\* @type: () => Bool;
ConstInit == Keys = {"a", "b", "c", "d"} /\ UnlinkEarly = FALSE /\ Loose0 \in SUBSET Keys /\ Packed0 \in SUBSET Keys
\* @type: () => Bool;
ConstInitDev == Keys = {"a", "b", "c", "d"} /\ UnlinkEarly = TRUE /\ Loose0 \in SUBSET Keys /\ Packed0 \in SUBSET Keys
=============================================================================
