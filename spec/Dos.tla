--------------------------------- MODULE Dos ---------------------------------
(***************************************************************************)
(* L1/L0: the object store at the granularity of single file-system calls  *)
(* and SQL statements, for the concurrent and failure properties.          *)
(*                                                                         *)
(* Actors: one loose writer W (add_object), one reader R (the read path of *)
(* _get_objects_stream_meta_generator), one packer P (pack_all_loose with  *)
(* or without clean_loose_per_pack, then clean_storage).  Each actor is a  *)
(* small state machine whose steps are the calls the code issues, in the   *)
(* order it issues them (line numbers of the pinned tree in comments).     *)
(* The environment can kill an actor at any step (its user-space buffer    *)
(* and its uncommitted transaction vanish), cut the power (every actor     *)
(* dies, file data not fsynced is lost, names and committed transactions   *)
(* survive) or make one call fail (the actor runs its exception path and   *)
(* stops).                                                                 *)
(*                                                                         *)
(* L0 "physics": a loose file is present or not and its data is synced or  *)
(* not; the pack is a sequence of extents of which a prefix is visible to  *)
(* the kernel (flushed) and a prefix of that is durable (fsynced); the     *)
(* index is a set of committed rows; a session that has run a SELECT keeps *)
(* the snapshot it saw until it is closed or commits.                      *)
(*                                                                         *)
(* Switch constants describe orderings the code must keep; flipping one    *)
(* makes TLC produce the corresponding counterexample (non-vacuity):       *)
(*   UnlinkBeforeCommit, CommitBeforeFlush, NoFallback, SkipPackFsync,     *)
(*   RenameBeforeFsync                                                     *)
(***************************************************************************)
EXTENDS Integers, Sequences, FiniteSets, TLC

CONSTANTS Keys,            \* contents
          Initial,         \* contents stored (loose, durable, acknowledged) before the actors start
          InitialPacked,   \* sequence of contents already packed (durable, indexed) before the actors start
          WriterAdds,      \* sequence of contents the writer adds
          ReaderWants,     \* set of contents the reader asks for
          ReaderPinned,    \* the reader's session already holds a snapshot (taken before everything)
          PerPack,         \* pack_all_loose(clean_loose_per_pack=...)
          MaxRetries,      \* MAX_RETRIES of LazyLooseStream.open_stream (3 in the code)
          SeekKey,         \* a packed content a second reader reads with a backward seek (re-loosen path); "none" = no such reader
          AllowCrash, AllowPower, AllowFault,
          UnlinkBeforeCommit, CommitBeforeFlush, NoFallback, SkipPackFsync, RenameBeforeFsync

VARIABLES loose,        \* [Keys -> {"absent", "good"}]
          looseSynced,  \* [Keys -> BOOLEAN]
          sbx,          \* writer's sandbox file: [k, inkernel, synced] or Nil
          pk,           \* kernel-visible pack: sequence of keys (one extent per key)
          pkSynced,     \* number of extents that are durable
          pbuf,         \* packer's user-space buffer: sequence of keys not yet flushed
          idx,          \* committed rows: set of [k, pos]
          pend,         \* packer's uncommitted rows
          snapP, pinP,  \* packer's session snapshot
          snapR, pinR,  \* reader's session snapshot
          lockf,        \* packs/0.lock exists
          wpc, wi, wexists,              \* writer: pc, index into WriterAdds, result of the exists() check
          rpc, rhits, rmiss, rres,       \* reader
          spc, stries, sres,             \* seeking reader (LazyLooseStream.open_stream, utils.py:226-256)
          ppc, plist, ptodo, pdone, pclean,   \* packer
          acked, rstarted,               \* ghosts: acknowledged contents; those acknowledged when the read started
          dead,                          \* set of actors that were killed / stopped by a fault
          faults,                        \* number of injected faults so far
          power,                         \* the power was cut
          lastActor

vars == <<loose, looseSynced, sbx, pk, pkSynced, pbuf, idx, pend, snapP, pinP, snapR, pinR, lockf, wpc, wi, wexists,
          rpc, rhits, rmiss, rres, spc, stries, sres, ppc, plist, ptodo, pdone, pclean, acked, rstarted, dead, faults, power,
          lastActor>>

Nil == [k |-> "none", inkernel |-> FALSE, synced |-> FALSE]
KeysOf(R) == {r.k : r \in R}
Present == {k \in Keys : loose[k] = "good"}
VP == IF pinP THEN snapP ELSE idx
VR == IF pinR THEN snapR ELSE idx
Range(s) == {s[i] : i \in DOMAIN s}

Init ==
    /\ loose = [k \in Keys |-> IF k \in Initial THEN "good" ELSE "absent"]
    /\ looseSynced = [k \in Keys |-> k \in Initial]
    /\ sbx = Nil /\ pk = InitialPacked /\ pkSynced = Len(InitialPacked) /\ pbuf = <<>>
    /\ idx = {[k |-> InitialPacked[i], pos |-> i] : i \in DOMAIN InitialPacked} /\ pend = {}
    /\ snapP = {} /\ pinP = FALSE /\ pinR = ReaderPinned /\ lockf = FALSE
    /\ snapR = IF ReaderPinned THEN {[k |-> InitialPacked[i], pos |-> i] : i \in DOMAIN InitialPacked} ELSE {}
    /\ wpc = "w_start" /\ wi = 1 /\ wexists = FALSE
    /\ rpc = "r_start" /\ rhits = {} /\ rmiss = {} /\ rres = [k \in Keys |-> "none"]
    /\ spc = (IF SeekKey = "none" THEN "s_done" ELSE "s_start") /\ stries = 0 /\ sres = "none"
    /\ ppc = "p_list" /\ plist = {} /\ ptodo = <<>> /\ pdone = {} /\ pclean = {}
    /\ acked = Initial \cup {InitialPacked[i] : i \in DOMAIN InitialPacked} /\ rstarted = {} /\ dead = {} /\ faults = 0 /\ power = FALSE /\ lastActor = "-"

-----------------------------------------------------------------------------
(* Writer: ObjectWriter (utils.py:326-495)                                  *)
WK == WriterAdds[wi]
WUnch == UNCHANGED <<pk, pkSynced, pbuf, idx, pend, snapP, pinP, snapR, pinR, lockf, rpc, rhits, rmiss, rres, spc, stries, sres,
                     ppc, plist, ptodo, pdone, pclean, rstarted, dead, faults, power>>

W_Write ==      \* open sandbox file, write, flush (utils.py:340, 358)
    /\ wpc = "w_start" /\ wi <= Len(WriterAdds)
    /\ sbx' = [k |-> WK, inkernel |-> TRUE, synced |-> FALSE]
    /\ wpc' = IF RenameBeforeFsync THEN "w_exists" ELSE "w_fsync"
    /\ UNCHANGED <<loose, looseSynced, wi, wexists, acked>> /\ WUnch
W_Fsync ==      \* os.fsync(sandbox file) + parent (utils.py:1343-1351)
    /\ wpc = "w_fsync"
    /\ sbx' = [sbx EXCEPT !.synced = TRUE]
    /\ wpc' = "w_exists"
    /\ UNCHANGED <<loose, looseSynced, wi, wexists, acked>> /\ WUnch
W_Exists ==     \* dest_loose_object.exists() (utils.py:385)
    /\ wpc = "w_exists"
    /\ wexists' = (loose[WK] = "good")
    /\ wpc' = IF loose[WK] = "good" THEN "w_hash" ELSE "w_rename"
    /\ UNCHANGED <<loose, looseSynced, sbx, wi, acked>> /\ WUnch
W_HashExisting ==   \* _compute_hash_for_file: good copy or vanished -> return (utils.py:399-416)
    /\ wpc = "w_hash"
    /\ wpc' = "w_cleanup"
    /\ UNCHANGED <<loose, looseSynced, sbx, wi, wexists, acked>> /\ WUnch
W_Rename ==     \* os.rename(sandbox, dest) (utils.py:451)
    /\ wpc = "w_rename"
    /\ loose' = [loose EXCEPT ![WK] = "good"]
    /\ looseSynced' = [looseSynced EXCEPT ![WK] = sbx.synced]
    /\ sbx' = Nil
    /\ wpc' = "w_cleanup"
    /\ UNCHANGED <<wi, wexists, acked>> /\ WUnch
W_Cleanup ==    \* fsync(loose dir); finally: remove the sandbox file if it is still there; return the key
    /\ wpc = "w_cleanup"
    /\ sbx' = Nil
    /\ acked' = acked \cup {WK}
    /\ wi' = wi + 1
    /\ wpc' = "w_start"
    /\ UNCHANGED <<loose, looseSynced, wexists>> /\ WUnch

Writer == /\ "W" \notin dead /\ ~power
          /\ (W_Write \/ W_Fsync \/ W_Exists \/ W_HashExisting \/ W_Rename \/ W_Cleanup)
          /\ lastActor' = "W"

-----------------------------------------------------------------------------
(* Reader: _get_objects_stream_meta_generator (container.py:535-813)        *)
RUnch == UNCHANGED <<loose, looseSynced, sbx, pk, pkSynced, pbuf, idx, pend, snapP, pinP, lockf, wpc, wi, wexists, spc, stries, sres,
                     ppc, plist, ptodo, pdone, pclean, acked, dead, faults, power>>

RowVisible(r) == r.pos <= Len(pk)        \* the bytes the row designates are in the kernel-visible pack

R_Select ==     \* first SELECT of the operation session: pins the snapshot (container.py:577-605)
    /\ rpc = "r_start"
    /\ rstarted' = acked \cap ReaderWants
    /\ snapR' = VR /\ pinR' = TRUE
    /\ rhits' = {k \in ReaderWants : k \in KeysOf(VR)}
    /\ rmiss' = {}
    /\ rpc' = "r_packs"
    /\ UNCHANGED rres /\ RUnch
R_ReadPacks ==  \* open the pack, read the ranges (container.py:607-654)
    /\ rpc = "r_packs"
    /\ rres' = [k \in Keys |-> IF k \in rhits
                                  THEN (IF \E r \in VR : r.k = k /\ RowVisible(r) THEN "OK" ELSE "PARTIAL")
                                  ELSE rres[k]]
    /\ rpc' = "r_loose"
    /\ UNCHANGED <<rhits, rmiss, snapR, pinR, rstarted>> /\ RUnch
R_OpenLoose ==  \* one open() per key not found in the index (container.py:656-700)
    /\ rpc = "r_loose"
    /\ \E k \in (ReaderWants \ rhits) \ (rmiss \cup {q \in Keys : rres[q] # "none"}) :
          IF loose[k] = "good"
             THEN rres' = [rres EXCEPT ![k] = "OK"] /\ UNCHANGED rmiss
             ELSE rmiss' = rmiss \cup {k} /\ UNCHANGED rres
    /\ UNCHANGED <<rpc, rhits, snapR, pinR, rstarted>> /\ RUnch
R_LooseDone ==
    /\ rpc = "r_loose"
    /\ (ReaderWants \ rhits) \ (rmiss \cup {q \in Keys : rres[q] # "none"}) = {}
    /\ rpc' = IF rmiss = {} \/ NoFallback THEN "r_done" ELSE "r_refresh"
    /\ rres' = IF NoFallback THEN [k \in Keys |-> IF k \in rmiss THEN "MISSING" ELSE rres[k]] ELSE rres
    /\ UNCHANGED <<rhits, rmiss, snapR, pinR, rstarted>> /\ RUnch
R_Refresh ==    \* close the session, SELECT again on a fresh snapshot, read from the pack (container.py:707-797)
    /\ rpc = "r_refresh"
    /\ snapR' = idx /\ pinR' = TRUE
    /\ rres' = [k \in Keys |-> IF k \in rmiss
                                  THEN (IF \E r \in idx : r.k = k THEN (IF \E r \in idx : r.k = k /\ RowVisible(r) THEN "OK" ELSE "PARTIAL")
                                        ELSE "MISSING")
                                  ELSE rres[k]]
    /\ rpc' = "r_done"
    /\ UNCHANGED <<rhits, rmiss, rstarted>> /\ RUnch

Reader == /\ "R" \notin dead /\ ~power
          /\ (R_Select \/ R_ReadPacks \/ R_OpenLoose \/ R_LooseDone \/ R_Refresh)
          /\ lastActor' = "R"

-----------------------------------------------------------------------------
(* Seeking reader: a backward seek on a packed, compressed object makes the stream re-loosen it (loosen_object,      *)
(* container.py:1887-1925) and open the loose copy, retrying when a concurrent clean removed it (utils.py:226-256).  *)
SUnch == UNCHANGED <<sbx, pk, pkSynced, pbuf, idx, pend, snapP, pinP, snapR, pinR, lockf, wpc, wi, wexists, rpc, rhits, rmiss, rres,
                     ppc, plist, ptodo, pdone, pclean, acked, rstarted, dead, faults, power>>
S_Exists ==     \* loosen_object: loose_path.exists()
    /\ spc = "s_start"
    /\ spc' = IF loose[SeekKey] = "good" THEN "s_open" ELSE "s_write"
    /\ UNCHANGED <<loose, looseSynced, stries, sres>> /\ SUnch
S_Write ==      \* read the packed object, write and fsync it in the sandbox
    /\ spc = "s_write" /\ spc' = "s_dest"
    /\ UNCHANGED <<loose, looseSynced, stries, sres>> /\ SUnch
S_DestExists == \* ObjectWriter: somebody (another loosening reader) may have put it there meanwhile
    /\ spc = "s_dest"
    /\ spc' = IF loose[SeekKey] = "good" THEN "s_open" ELSE "s_rename"
    /\ UNCHANGED <<loose, looseSynced, stries, sres>> /\ SUnch
S_Rename ==
    /\ spc = "s_rename"
    /\ loose' = [loose EXCEPT ![SeekKey] = "good"] /\ looseSynced' = [looseSynced EXCEPT ![SeekKey] = TRUE]
    /\ spc' = "s_open"
    /\ UNCHANGED <<stries, sres>> /\ SUnch
S_Open ==       \* open(loose_path): FileNotFoundError -> retry, more than MAX_RETRIES = 3 -> RuntimeError
    /\ spc = "s_open"
    /\ IF loose[SeekKey] = "good"
          THEN sres' = "OK" /\ spc' = "s_done" /\ UNCHANGED stries
          ELSE /\ stries' = stries + 1
               /\ IF stries + 1 > MaxRetries THEN sres' = "RuntimeError" /\ spc' = "s_done" ELSE sres' = sres /\ spc' = "s_start"
    /\ UNCHANGED <<loose, looseSynced>> /\ SUnch

Seeker == /\ "S" \notin dead /\ ~power
          /\ (S_Exists \/ S_Write \/ S_DestExists \/ S_Rename \/ S_Open)
          /\ lastActor' = "S"

-----------------------------------------------------------------------------
(* Packer: pack_all_loose (container.py:1258-1486) then clean_storage (1945-2055) *)
PUnch == UNCHANGED <<sbx, snapR, pinR, wpc, wi, wexists, rpc, rhits, rmiss, rres, spc, stries, sres, acked, rstarted, dead, faults, power>>

P_List ==       \* set(self._list_loose())
    /\ ppc = "p_list"
    /\ plist' = Present
    /\ ppc' = "p_select"
    /\ UNCHANGED <<loose, looseSynced, pk, pkSynced, pbuf, idx, pend, snapP, pinP, lockf, ptodo, pdone, pclean>> /\ PUnch
P_Select ==     \* which of them are already indexed (session snapshot)
    /\ ppc = "p_select"
    /\ snapP' = VP /\ pinP' = TRUE
    /\ \E order \in {s \in [1..Cardinality(plist \ KeysOf(VP)) -> plist \ KeysOf(VP)] :
                        \A i, j \in DOMAIN s : i # j => s[i] # s[j]} : ptodo' = order
    /\ ppc' = IF plist \ KeysOf(VP) = {} THEN "c_list" ELSE "p_lock"
    /\ UNCHANGED <<loose, looseSynced, pk, pkSynced, pbuf, idx, pend, lockf, plist, pdone, pclean>> /\ PUnch
P_Lock ==       \* open(lock, 'x'); open(pack, 'ab')
    /\ ppc = "p_lock" /\ ~lockf
    /\ lockf' = TRUE
    /\ ppc' = "p_copy"
    /\ UNCHANGED <<loose, looseSynced, pk, pkSynced, pbuf, idx, pend, snapP, pinP, plist, ptodo, pdone, pclean>> /\ PUnch
P_Copy ==       \* open the loose file, append its bytes to the (buffered) pack handle
    /\ ppc = "p_copy" /\ Len(pbuf) < Len(ptodo)
    /\ pbuf' = Append(pbuf, ptodo[Len(pbuf) + 1])
    /\ UNCHANGED <<loose, looseSynced, pk, pkSynced, idx, pend, snapP, pinP, lockf, ppc, plist, ptodo, pdone, pclean>> /\ PUnch
P_Insert ==     \* session.execute(insert) - uncommitted
    /\ ppc = "p_copy" /\ Len(pbuf) = Len(ptodo)
    /\ pend' = {[k |-> ptodo[i], pos |-> Len(pk) + i] : i \in DOMAIN ptodo}
    /\ ppc' = IF CommitBeforeFlush THEN "p_commit" ELSE "p_flush"
    /\ UNCHANGED <<loose, looseSynced, pk, pkSynced, pbuf, idx, snapP, pinP, lockf, plist, ptodo, pdone, pclean>> /\ PUnch
P_Flush ==      \* safe_flush_to_disk: fhandle.flush()
    /\ ppc = "p_flush"
    /\ pk' = pk \o pbuf /\ pbuf' = <<>>
    /\ ppc' = IF SkipPackFsync THEN "p_unlock" ELSE "p_fsync"
    /\ UNCHANGED <<loose, looseSynced, pkSynced, idx, pend, snapP, pinP, lockf, plist, ptodo, pdone, pclean>> /\ PUnch
P_Fsync ==      \* os.fsync(pack) + directory
    /\ ppc = "p_fsync"
    /\ pkSynced' = Len(pk)
    /\ ppc' = "p_unlock"
    /\ UNCHANGED <<loose, looseSynced, pk, pbuf, idx, pend, snapP, pinP, lockf, plist, ptodo, pdone, pclean>> /\ PUnch
P_Unlock ==     \* close the pack, remove the lock file
    /\ ppc = "p_unlock"
    /\ lockf' = FALSE
    /\ ppc' = IF CommitBeforeFlush THEN (IF PerPack THEN "p_unlink" ELSE "c_list")
              ELSE IF UnlinkBeforeCommit /\ PerPack THEN "p_unlink" ELSE "p_commit"
    /\ UNCHANGED <<loose, looseSynced, pk, pkSynced, pbuf, idx, pend, snapP, pinP, plist, ptodo, pdone, pclean>> /\ PUnch
P_Commit ==     \* session.commit()
    /\ ppc = "p_commit"
    /\ idx' = idx \cup pend /\ pend' = {}
    /\ pinP' = FALSE /\ snapP' = {}
    /\ ppc' = IF CommitBeforeFlush THEN "p_flush"
              ELSE IF PerPack /\ ~UnlinkBeforeCommit THEN "p_unlink" ELSE "c_list"
    /\ UNCHANGED <<loose, looseSynced, pk, pkSynced, pbuf, lockf, plist, ptodo, pdone, pclean>> /\ PUnch
P_Unlink ==     \* _clean_loose_objects: one os.remove per packed key
    /\ ppc = "p_unlink"
    /\ \E k \in Range(ptodo) \ pdone :
          /\ loose' = [loose EXCEPT ![k] = "absent"]
          /\ pdone' = pdone \cup {k}
    /\ UNCHANGED <<looseSynced, pk, pkSynced, pbuf, idx, pend, snapP, pinP, lockf, ppc, plist, ptodo, pclean>> /\ PUnch
P_UnlinkDone ==
    /\ ppc = "p_unlink" /\ Range(ptodo) \ pdone = {}
    /\ ppc' = IF UnlinkBeforeCommit /\ idx \cap pend = {} /\ pend # {} THEN "p_commit" ELSE "c_list"
    /\ UNCHANGED <<loose, looseSynced, pk, pkSynced, pbuf, idx, pend, snapP, pinP, lockf, plist, ptodo, pdone, pclean>> /\ PUnch
C_List ==       \* clean_storage: list loose, close sessions, fresh SELECT
    /\ ppc = "c_list"
    /\ pclean' = Present \cap KeysOf(idx)
    /\ snapP' = idx /\ pinP' = TRUE
    /\ ppc' = "c_unlink"
    /\ UNCHANGED <<loose, looseSynced, pk, pkSynced, pbuf, idx, pend, lockf, plist, ptodo, pdone>> /\ PUnch
C_Unlink ==     \* one os.remove per loose file that the index knows
    /\ ppc = "c_unlink" /\ pclean # {}
    /\ \E k \in pclean :
          /\ loose' = [loose EXCEPT ![k] = "absent"]
          /\ pclean' = pclean \ {k}
    /\ UNCHANGED <<looseSynced, pk, pkSynced, pbuf, idx, pend, snapP, pinP, lockf, ppc, plist, ptodo, pdone>> /\ PUnch
C_Done ==
    /\ ppc = "c_unlink" /\ pclean = {}
    /\ ppc' = "p_done"
    /\ UNCHANGED <<loose, looseSynced, pk, pkSynced, pbuf, idx, pend, snapP, pinP, lockf, plist, ptodo, pdone, pclean>> /\ PUnch

Packer == /\ "P" \notin dead /\ ~power
          /\ (P_List \/ P_Select \/ P_Lock \/ P_Copy \/ P_Insert \/ P_Flush \/ P_Fsync \/ P_Unlock \/ P_Commit
              \/ P_Unlink \/ P_UnlinkDone \/ C_List \/ C_Unlink \/ C_Done)
          /\ lastActor' = "P"

-----------------------------------------------------------------------------
(* Environment                                                              *)
Unstarted(a) == CASE a = "W" -> wpc = "w_start" /\ wi > Len(WriterAdds)
                  [] a = "R" -> rpc = "r_done"
                  [] a = "P" -> ppc = "p_done"

(* a process kill (C05) or a call that raises (C17): the actor stops where it is; what it held in user space is gone.
   The exception path of the packer removes its lock file (lock_pack finally), a kill does not. *)
Stop(a, isFault) ==
    /\ a \notin dead /\ ~Unstarted(a) /\ ~power
    /\ dead' = dead \cup {a}
    /\ IF a = "P" THEN /\ pbuf' = <<>> /\ pend' = {} /\ pinP' = FALSE /\ snapP' = {}
                       /\ lockf' = IF isFault THEN FALSE ELSE lockf
                  ELSE UNCHANGED <<pbuf, pend, pinP, snapP, lockf>>
    /\ faults' = IF isFault THEN faults + 1 ELSE faults
    /\ lastActor' = "env"
    /\ UNCHANGED <<loose, looseSynced, sbx, pk, pkSynced, idx, snapR, pinR, wpc, wi, wexists, rpc, rhits, rmiss, rres,
                   spc, stries, sres, ppc, plist, ptodo, pdone, pclean, acked, rstarted, power>>

Crash == AllowCrash /\ \E a \in {"W", "P"} : Stop(a, FALSE)
Fault == AllowFault /\ faults = 0 /\ \E a \in {"W", "P"} : Stop(a, TRUE)

(* the power is cut: everything not fsynced is lost (C06's fault model) *)
PowerLoss ==
    /\ AllowPower /\ ~power
    /\ power' = TRUE
    /\ dead' = {"W", "R", "P", "S"}
    /\ pk' = SubSeq(pk, 1, pkSynced)
    /\ loose' = [k \in Keys |-> IF loose[k] = "good" /\ ~looseSynced[k] THEN "torn" ELSE loose[k]]
    /\ pbuf' = <<>> /\ pend' = {}
    /\ lastActor' = "env"
    /\ UNCHANGED <<looseSynced, sbx, pkSynced, idx, snapP, pinP, snapR, pinR, lockf, wpc, wi, wexists, rpc, rhits, rmiss, rres,
                   spc, stries, sres, ppc, plist, ptodo, pdone, pclean, acked, rstarted, faults>>

Next == Writer \/ Reader \/ Seeker \/ Packer \/ Crash \/ Fault \/ PowerLoss
Spec == Init /\ [][Next]_vars

(* Liveness: nobody waits for anybody.  The only lock is the packer's own lock file, a reader never blocks on the packer,
   the seeking reader's retries are bounded: under weak fairness of each actor every call returns. *)
FairSpec == Spec /\ WF_vars(Writer) /\ WF_vars(Reader) /\ WF_vars(Seeker) /\ WF_vars(Packer)
AllReturned == /\ wpc = "w_start" /\ wi > Len(WriterAdds)
               /\ rpc = "r_done" /\ ppc = "p_done" /\ spc = "s_done"
EveryCallReturns == <>AllReturned

-----------------------------------------------------------------------------
(* Properties                                                               *)
TypeOK == /\ \A k \in Keys : loose[k] \in {"absent", "good", "torn"}
          /\ pkSynced <= Len(pk) \/ power

(* C04: every object acknowledged before the read started is found with its bytes; nothing partial is ever returned *)
ReadCorrect ==
    /\ \A k \in Keys : rres[k] # "PARTIAL"
    /\ rpc = "r_done" => \A k \in rstarted : rres[k] = "OK"

(* C05: in every state, what is on disk right now (= what a kill of everybody would leave) holds every acknowledged object,
   complete, where the index or the loose folder says; every committed row designates bytes that are there *)
Recoverable ==
    /\ \A r \in idx : r.pos <= Len(pk) /\ pk[r.pos] = r.k
    /\ \A k \in acked : loose[k] = "good" \/ \E r \in idx : r.k = k
    /\ \A k \in Keys : loose[k] # "torn" \/ power

(* C06: publish only after durable; remove only after the replacement is durable *)
DurableVisible == power \/ (
    /\ \A k \in Keys : loose[k] = "good" => looseSynced[k]
    /\ \A r \in idx : r.pos <= pkSynced
    /\ \A k \in acked : (loose[k] = "good" /\ looseSynced[k]) \/ \E r \in idx : r.k = k /\ r.pos <= pkSynced)
AfterPowerLoss == power => /\ \A k \in acked : loose[k] = "good" \/ \E r \in idx : r.k = k /\ r.pos <= Len(pk) /\ pk[r.pos] = r.k
                           /\ \A k \in Keys : loose[k] # "torn"
                           /\ \A r \in idx : r.pos <= Len(pk)

(* the seeking read of a packed object succeeds: with a single packer the re-loosened copy is removed at most once *)
SeekReadCorrect == /\ sres # "RuntimeError"
                   /\ (spc = "s_done" /\ SeekKey # "none" /\ "S" \notin dead) => sres = "OK"

(* the writer returns the key of the content it was given, and the object is then reachable *)
WriteAcked == \A k \in acked : loose[k] = "good" \/ (\E r \in idx : r.k = k) \/ power
=============================================================================
