------------------------------- MODULE Stream -------------------------------
(***************************************************************************)
(* Reference semantics of a stream handed out by the object store (C07).   *)
(*                                                                         *)
(* The stream is a read-only binary file over an object of N units.  For   *)
(* every call with an in-range target the outcome is that of an in-memory  *)
(* binary file (io.BytesIO): deterministic.  For an out-of-range seek the  *)
(* property allows the call to be rejected (position unchanged) or the     *)
(* position to be clamped; a plain file object additionally parks the      *)
(* position beyond the end (every later read is empty), which is also what *)
(* io.BytesIO does, so it is allowed too.  In no state may a read return   *)
(* bytes outside [0, N).                                                   *)
(*                                                                         *)
(* Bytes are abstracted to the interval [lo, hi) of the object they come   *)
(* from; the harness uses contents in which every window is unique, so an  *)
(* interval identifies the bytes.                                          *)
(***************************************************************************)
EXTENDS Integers, TLC

CONSTANTS N,            \* length of the object (units)
          ReadSizes,    \* sizes n used in read(n); -1 stands for read()
          SeekTargets,  \* set of <<t, w>> used in seek(t, w)
          MaxPos        \* largest parked position the model follows

VARIABLES pos,          \* what tell() answers
          last          \* the last call and its outcome (observation)

vars == <<pos, last>>

Min(a, b) == IF a < b THEN a ELSE b
Eff(p) == Min(p, N)                       \* where the next byte would come from
Target(t, w) == CASE w = 0 -> t [] w = 1 -> pos + t [] w = 2 -> N + t

Outcome(c, a, w, r, lo, hi) == [call |-> c, a |-> a, w |-> w, res |-> r, lo |-> lo, hi |-> hi]

Init == /\ pos = 0
        /\ last = Outcome("open", 0, 0, "ok", 0, 0)

Read(n) ==
    LET lo == Eff(pos)
        hi == IF n < 0 THEN N ELSE Min(lo + n, N)
    IN /\ pos' = IF pos > N THEN pos ELSE hi
       /\ last' = Outcome("read", n, 0, "bytes", lo, hi)

Tell == /\ pos' = pos
        /\ last' = Outcome("tell", 0, 0, "int", pos, pos)

SeekInRange(t, w) ==
    LET T == Target(t, w) IN
    /\ T \in 0..N
    /\ pos' = T
    /\ last' = Outcome("seek", t, w, "int", T, T)

SeekRejected(t, w) ==
    LET T == Target(t, w) IN
    /\ T \notin 0..N
    /\ pos' = pos
    /\ last' = Outcome("seek", t, w, "raise", pos, pos)

SeekClamped(t, w) ==
    LET T == Target(t, w)
        C == IF T < 0 THEN 0 ELSE N
    IN /\ T \notin 0..N
       /\ pos' = C
       /\ last' = Outcome("seek", t, w, "int", C, C)

SeekParked(t, w) ==
    LET T == Target(t, w) IN
    /\ T > N /\ T <= MaxPos
    /\ pos' = T
    /\ last' = Outcome("seek", t, w, "int", T, T)

Seek(t, w) == SeekInRange(t, w) \/ SeekRejected(t, w) \/ SeekClamped(t, w) \/ SeekParked(t, w)

Next == \/ \E n \in ReadSizes : Read(n)
        \/ Tell
        \/ \E tw \in SeekTargets : Seek(tw[1], tw[2])

Spec == Init /\ [][Next]_vars

-----------------------------------------------------------------------------
TypeOK == /\ pos \in 0..MaxPos
          /\ last.res \in {"ok", "bytes", "int", "raise"}

(* No read ever returns bytes from outside the object. *)
ReadsInside == last.res = "bytes" => /\ 0 <= last.lo /\ last.lo <= last.hi /\ last.hi <= N

(* The position is never corrupted: it is always a position of the object or a parked one. *)
PositionSane == pos >= 0

(* In-range calls are deterministic and behave like an in-memory file. *)
InRangeLikeMemoryFile ==
    [][ /\ (last'.call = "seek" /\ Target(last'.a, last'.w) \in 0..N)
            => (last'.res = "int" /\ last'.lo = Target(last'.a, last'.w) /\ pos' = last'.lo)
        /\ (last'.call = "read" /\ pos <= N)
            => (last'.lo = pos /\ pos' = last'.hi
                /\ last'.hi = (IF last'.a < 0 THEN N ELSE Min(pos + last'.a, N)))
        /\ (last'.call = "tell") => (last'.lo = pos /\ pos' = pos)
      ]_vars

(* A rejected seek leaves the position where it was. *)
RejectedKeepsPosition == [][last'.res = "raise" => pos' = pos]_vars
=============================================================================
