----------------------------- MODULE DamageTrace -----------------------------
(***************************************************************************)
(* C12 (no false negatives): after any damage to a loose file, to a        *)
(* referenced byte of a pack or to an index field that makes some object   *)
(* unreadable, read back as different bytes, or disagree with its recorded *)
(* size, validate() never returns a clean report.                          *)
(* One line per damaged copy of a container:                               *)
(*   damage   what was done (kind, target, position)                       *)
(*   effects  ground truth per key, from the raw projection (sqlite3 +     *)
(*            zlib + hashlib): "same" | "unreadable" | "different" |       *)
(*            "sizewrong" | "gone"                                         *)
(*   val      "clean" | "issues" | "raised"                                *)
(* Damage that changes nothing observable may validate clean.              *)
(***************************************************************************)
EXTENDS Integers, Sequences, FiniteSets, TLC, Json, IOUtils

All == ndJsonDeserialize(IOEnv.TRACE_FILE)
N == Len(All)
VARIABLE l
Init == l \in 1..N
Next == UNCHANGED l
Spec == Init /\ [][Next]_l

Ln == All[l]
S(s) == {s[i] : i \in DOMAIN s}
Hurt == {e \in S(Ln.effects) : e.effect # "same"}

C12_NeverCleanOnDamage == (Hurt # {}) => Ln.val # "clean"
(* "(it names the object or fails)": every hurt object is mentioned by the report, unless validation raised *)
C12_NamesTheObjectOrFails == Ln.val = "raised" \/ \A e \in Hurt : e.k \in S(Ln.named)
(* sanity of the oracle itself: the undamaged container validates clean and has no hurt object *)
C12_BaselineClean == (Ln.damage.kind = "none") => (Hurt = {} /\ Ln.val = "clean")
=============================================================================
