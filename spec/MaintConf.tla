------------------------------ MODULE MaintConf ------------------------------
(***************************************************************************)
(* Conformance of the maintenance operations to DosMaint (code -> spec):   *)
(* for each case (operation + pre-state, realised on a real container) the *)
(* sequence of calls the library issued, as observed by the interposition  *)
(* layer and abstracted to write / trunc / fsync / bind / unbind / rows,   *)
(* must be exactly the observable projection of the program DosMaint       *)
(* compiles for that case.  What the code leaves open (the order in which  *)
(* a set of loose keys is handled) is taken from the observation and given *)
(* as the case's `ks`.  TLC also model-checks each recorded case under     *)
(* Stop / PowerLoss (the invariants of DosMaint), so the design argument   *)
(* applies to the step sequence the code really executes.                  *)
(***************************************************************************)
EXTENDS DosMaint, Json, IOUtils

All == ndJsonDeserialize(IOEnv.TRACE_FILE)
S2(s) == {s[i] : i \in DOMAIN s}

CaseOf(j) == [op |-> j.op,
              pre |-> [loose |-> j.pre.loose,
                       packs |-> (0 :> j.pre.pack0 @@ 1 :> j.pre.pack1),
                       exists |-> S2(j.pre.exists),
                       idx |-> S2(j.pre.idx)],
              ks |-> j.ks, noholes |-> j.noholes, perpack |-> j.perpack,
              sz |-> j.sz, target |-> j.target, budget |-> j.budget]

TraceCases == {CaseOf(All[i]) : i \in DOMAIN All}

(* every recorded sequence of calls is the observable projection of the model's program *)
Conforms == \A i \in DOMAIN All : Observable(CaseOf(All[i])) = All[i].events
Mismatches == {i \in DOMAIN All : Observable(CaseOf(All[i])) # All[i].events}
ASSUME PrintT(<<"MISMATCHES", Mismatches>>)
ASSUME \A i \in Mismatches : PrintT(<<"MISMATCH", i, All[i].name, "model", Observable(CaseOf(All[i])), "real", All[i].events>>)
==============================================================================
