SPECIFICATION Spec
CONSTANTS
  Keys <- MCKeys
  Snap <- MCSnap
  Idx <- MCIdx
  Loose <- MCLoose
  Requests <- MCRequests
  InMax = 2
  MaxChunkIterate = 3
  SkipIfMissing = FALSE
  IterateRequestList = FALSE
  RetryKeepsDuplicates = FALSE
  NoRetry = TRUE
INVARIANT EachKeyOnce
INVARIANT Pointwise
