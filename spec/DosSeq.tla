------------------------------- MODULE DosSeq -------------------------------
(***************************************************************************)
(* Design model of the object store at the granularity of one public call  *)
(* (L1 at call level + the L2 oracle `map`).                               *)
(*                                                                         *)
(* State = what is on disk (loose files, pack files as sequences of        *)
(* physical extents, committed index rows) + what each open handle caches  *)
(* (pinned SQLite read snapshot of its operation session, current pack     *)
(* id).  Every action is one API call, written after the code             *)
(* (disk_objectstore/container.py; line numbers in comments refer to the   *)
(* pinned tree).  Deliberate deviations of the code from the ideal are     *)
(* switch constants, so that the same module describes the code before and *)
(* after a repair:                                                         *)
(*   AppendIgnoresSeek       no_holes + read-once seeks back on an O_APPEND *)
(*                           handle without truncating (container.py:1754) *)
(*   ListUsesPinnedSnapshot  list_all_objects reads the index through the  *)
(*                           pinned snapshot (container.py:1160-1196)      *)
(* Bytes never appear: keys are content identities; an extent [k, z, len]  *)
(* is "the stored form (deflated iff z) of content k, len bytes long".     *)
(***************************************************************************)
EXTENDS DosPred, TLC

CONSTANTS Keys,          \* content identities
          Size,          \* [Keys -> Nat]   content length
          ZLen,          \* [Keys -> Nat]   deflated length (container's zlib level)
          AutoZ,         \* [Keys -> BOOLEAN] what the AUTO heuristic answers for a plain source
          PackTarget,    \* pack_size_target
          MaxPack,       \* pack ids 0..MaxPack are modelled
          Handles,       \* open handles on the folder
          AppendIgnoresSeek, ListUsesPinnedSnapshot

VARIABLES loose,   \* [Keys -> {"absent","good","bad"}]
          pack,    \* [0..MaxPack -> Seq(extent)]  physical content of pack files
          pex,     \* set of existing pack files
          idx,     \* committed index rows [k, p, off, len, z, size]
          pinned,  \* [Handles -> BOOLEAN]   operation session holds a read snapshot
          snap,    \* [Handles -> SUBSET rows]   that snapshot
          cur,     \* [Handles -> Nat]   cached _current_pack_id
          map,     \* L2 oracle: set of keys a plain mapping would hold
          repacked, \* ghost: some repack has happened (C13 speaks of histories without repack)
          locked,  \* pack ids whose lock file lies in the packs folder (left by a killed writer: environment)
          tmpleft, \* the temporary pack -1 of an interrupted repack lies in the packs folder (environment)
          last     \* the last call and its result (observation only)

vars == <<loose, pack, pex, idx, pinned, snap, cur, map, repacked, locked, tmpleft, last>>
core == <<loose, pack, pex, idx, pinned, snap, cur, map, repacked>>

Junk == "junk"
PackIdsAll == 0..(MaxPack + 1)   \* one spare id: calls that would need it are cut off by the guards

RECURSIVE SeqLen(_)
SeqLen(s) == IF s = <<>> THEN 0 ELSE Head(s).len + SeqLen(Tail(s))
OffAt(s, i) == SeqLen(SubSeq(s, 1, i - 1))

Present(k) == loose[k] # "absent"
LoosePresent == {k \in Keys : Present(k)}
KeysOf(R) == {r.k : r \in R}
V(h) == IF pinned[h] THEN snap[h] ELSE idx

StoredLen(k, z) == IF z THEN ZLen[k] ELSE Size[k]
Ext(k, z) == [k |-> k, z |-> z, len |-> StoredLen(k, z)]

-----------------------------------------------------------------------------
(* Observation of the model state, in the shape DosPred expects.           *)
RowTag(r) ==
    IF /\ r.p \in pex
       /\ \E i \in DOMAIN pack[r.p] : /\ OffAt(pack[r.p], i) = r.off
                                      /\ pack[r.p][i].k = r.k /\ pack[r.p][i].z = r.z /\ pack[r.p][i].len = r.len
    THEN "whole" ELSE "bad"

ObsOf == [loose |-> SetToSeq({[k |-> k, tag |-> loose[k]] : k \in LoosePresent}),
          rows  |-> SetToSeq({[k |-> r.k, p |-> r.p, off |-> r.off, len |-> r.len, z |-> r.z, size |-> r.size,
                               tag |-> RowTag(r)] : r \in idx}),
          packs |-> SetToSeq({[p |-> p, len |-> SeqLen(pack[p])] : p \in pex})]

-----------------------------------------------------------------------------
(* Session bookkeeping (database.py:43-69, container.py:128-136, 210-220)  *)
SelPin(h)  == /\ pinned' = [pinned EXCEPT ![h] = TRUE]
              /\ snap' = [snap EXCEPT ![h] = V(h)]
Unpin(h)   == /\ pinned' = [pinned EXCEPT ![h] = FALSE]
              /\ snap' = [snap EXCEPT ![h] = {}]
Refresh(h, newidx) == /\ pinned' = [pinned EXCEPT ![h] = TRUE]
                      /\ snap' = [snap EXCEPT ![h] = newidx]
KeepSession == UNCHANGED <<pinned, snap>>

-----------------------------------------------------------------------------
(* Writing to packs (container.py:246-282, 1100-1123, 1198-1256)           *)
RECURSIVE ChoosePack(_, _, _)
ChoosePack(c, pk, ex) ==
    IF c > MaxPack THEN c
    ELSE IF c \notin ex \/ SeqLen(pk[c]) < PackTarget THEN c ELSE ChoosePack(c + 1, pk, ex)

(* w = [pack, pex, cur, rows, open, shift]: state of one writing call *)
W0(h) == [pack |-> pack, pex |-> pex, cur |-> cur[h], rows |-> <<>>, open |-> 0 - 1, shift |-> 0]

RECURSIVE TruncSeq(_, _)
TruncSeq(s, n) ==      \* keep the first n bytes of a pack; a cut extent becomes junk
    IF s = <<>> THEN <<>>
    ELSE IF Head(s).len <= n THEN <<Head(s)>> \o TruncSeq(Tail(s), n - Head(s).len)
    ELSE IF n > 0 THEN <<[k |-> Junk, z |-> FALSE, len |-> n]>> ELSE <<>>

(* leave the pack that is open: the final truncate() of no_holes cuts `shift` bytes *)
CloseOpen(w) ==
    IF w.open < 0 \/ w.shift = 0 THEN [w EXCEPT !.shift = 0]
    ELSE [w EXCEPT !.pack[w.open] = TruncSeq(@, SeqLen(@) - w.shift), !.shift = 0]

(* consult _get_pack_id_to_write_to before the next object; lock_pack creates the file *)
Select(w) ==
    LET p == ChoosePack(w.cur, w.pack, w.pex) IN
    IF p = w.open THEN w
    ELSE LET c == CloseOpen(w) IN [c EXCEPT !.pex = @ \cup {p}, !.cur = p, !.open = p]

Write(w, e, withRow) ==
    LET p == w.open
        off == SeqLen(w.pack[p]) - w.shift          \* tell()
        row == [k |-> e.k, p |-> p, off |-> off, len |-> e.len, z |-> e.z, size |-> Size[e.k]]
    IN [w EXCEPT !.pack[p] = Append(@, e), !.rows = IF withRow THEN Append(@, row) ELSE @]

(* seek back over the object just written: the repaired code truncates at once *)
Rewind(w, e) ==
    IF AppendIgnoresSeek THEN [w EXCEPT !.shift = @ + e.len]
    ELSE [w EXCEPT !.pack[w.open] = SubSeq(@, 1, Len(@) - 1)]

RECURSIVE InsertOrIgnore(_, _)
InsertOrIgnore(R, rs) ==
    IF rs = <<>> THEN R
    ELSE InsertOrIgnore(IF Head(rs).k \in KeysOf(R) THEN R ELSE R \cup {Head(rs)}, Tail(rs))

(* add_streamed_objects_to_pack (container.py:1548-1837) *)
RECURSIVE ToPack(_, _, _, _, _, _)
ToPack(w, ks, z, noholes, twice, known) ==
    IF ks = <<>> THEN CloseOpen(w)
    ELSE LET k == Head(ks)
             s == Select(w)
             e == Ext(k, z)
         IN IF noholes /\ twice /\ k \in known
               THEN ToPack(s, Tail(ks), z, noholes, twice, known)
            ELSE IF noholes /\ k \in known
               THEN ToPack(Rewind(Write(s, e, FALSE), e), Tail(ks), z, noholes, twice, known)
            ELSE ToPack(Write(s, e, TRUE), Tail(ks), z, noholes, twice,
                        IF noholes THEN known \cup {k} ELSE known)

(* append a given sequence of extents, one row each (pack_all_loose) *)
RECURSIVE AppendAll(_, _)
AppendAll(w, es) == IF es = <<>> THEN w ELSE AppendAll(Write(Select(w), Head(es), TRUE), Tail(es))

Rec(op, h, ks, res, err) == [op |-> op, h |-> h, keys |-> ks, res |-> res, err |-> err,
                             z |-> FALSE, nh |-> FALSE, tw |-> FALSE, pp |-> FALSE, mode |-> "", S |-> {}, sh |-> FALSE]

-----------------------------------------------------------------------------
(* The calls                                                               *)

Init == /\ loose = [k \in Keys |-> "absent"]
        /\ pack = [p \in PackIdsAll |-> <<>>]
        /\ pex = {}
        /\ idx = {}
        /\ pinned = [h \in Handles |-> FALSE]
        /\ snap = [h \in Handles |-> {}]
        /\ cur = [h \in Handles |-> 0]
        /\ map = {}
        /\ repacked = FALSE
        /\ last = Rec("init", "-", <<>>, {}, "")
        /\ locked = {}
        /\ tmpleft = FALSE

(* add_object / add_streamed_object (container.py:987-1016, utils.py:343-495):
   the index is not consulted; a damaged existing copy is replaced *)
AddLoose(h, k) ==
    /\ loose' = [loose EXCEPT ![k] = "good"]
    /\ map' = map \cup {k}
    /\ last' = Rec("add", h, <<k>>, {k}, "")
    /\ UNCHANGED <<pack, pex, idx, pinned, snap, cur, repacked>>

(* add_objects_to_pack / add_streamed_object(s)_to_pack *)
AddToPack(h, ks, z, noholes, twice) ==
    LET known == IF noholes THEN KeysOf(V(h)) ELSE {}
        w0 == [W0(h) EXCEPT !.cur = ChoosePack(cur[h], pack, pex)]
        w == ToPack(w0, ks, z, noholes, twice, known)
    IN /\ w.cur <= MaxPack
       /\ pack' = w.pack /\ pex' = w.pex
       /\ cur' = [cur EXCEPT ![h] = w.cur]
       /\ idx' = InsertOrIgnore(idx, w.rows)
       /\ IF ks = <<>> THEN (IF noholes THEN SelPin(h) ELSE KeepSession) ELSE Unpin(h)
       /\ map' = map \cup {ks[i] : i \in DOMAIN ks}
       /\ last' = [Rec("addpack", h, ks, {ks[i] : i \in DOMAIN ks}, "") EXCEPT !.z = z, !.nh = noholes, !.tw = twice]
       /\ UNCHANGED <<loose, repacked>>

ModeZ(mode, k) == CASE mode = "YES" -> TRUE
                    [] mode = "AUTO" -> (Size[k] # 0 /\ AutoZ[k])
                    [] OTHER -> FALSE

(* pack_all_loose (container.py:1258-1486): `order` is the order in which the set of loose keys is popped *)
PackAllLoose(h, mode, perpack, order) ==
    LET todo == LoosePresent \ KeysOf(V(h))
        w0 == [W0(h) EXCEPT !.cur = ChoosePack(cur[h], pack, pex)]
        w == AppendAll(w0, [i \in DOMAIN order |-> Ext(order[i], ModeZ(mode, order[i]))])
    IN /\ {order[i] : i \in DOMAIN order} = todo /\ Len(order) = Cardinality(todo)
       /\ \A k \in todo : loose[k] = "good"
       /\ w.cur <= MaxPack
       /\ pack' = w.pack /\ pex' = w.pex
       /\ cur' = [cur EXCEPT ![h] = w.cur]
       /\ idx' = idx \cup {w.rows[i] : i \in DOMAIN w.rows}
       /\ IF todo = {} THEN SelPin(h) ELSE Unpin(h)
       /\ loose' = IF perpack THEN [k \in Keys |-> IF k \in todo THEN "absent" ELSE loose[k]] ELSE loose
       /\ map' = map
       /\ UNCHANGED repacked
       /\ last' = [Rec("pack", h, order, todo, "") EXCEPT !.mode = mode, !.pp = perpack]

(* clean_storage (container.py:1945-2055): closes the sessions, then unlinks what the fresh index knows *)
Clean(h) ==
    /\ loose' = [k \in Keys |-> IF k \in KeysOf(idx) THEN "absent" ELSE loose[k]]
    /\ Refresh(h, idx)
    /\ map' = map
    /\ last' = Rec("clean", h, <<>>, {}, "")
    /\ UNCHANGED <<pack, pex, idx, cur, repacked>>

(* delete_objects (container.py:2460-2539) *)
Delete(h, S) ==
    /\ loose' = [k \in Keys |-> IF k \in S THEN "absent" ELSE loose[k]]
    /\ idx' = {r \in idx : r.k \notin S}
    /\ IF S = {} THEN KeepSession ELSE Unpin(h)
    /\ map' = map \ S
    /\ last' = [Rec("delete", h, <<>>, S \cap (LoosePresent \cup KeysOf(idx)), "") EXCEPT !.S = S]
    /\ UNCHANGED <<pack, pex, cur, repacked>>

(* should_compress for a packed source (utils.py:1520-1578) *)
RepackZ(mode, r) == CASE mode = "YES" -> TRUE
                      [] mode = "NO" -> FALSE
                      [] mode = "KEEP" -> r.z
                      [] OTHER -> IF r.z THEN (r.size # 0 /\ 10 * r.len < 9 * r.size)
                                         ELSE (r.size # 0 /\ AutoZ[r.k])

RECURSIVE Relocate(_, _, _)
Relocate(rs, mode, off) ==   \* rows of one pack in offset order -> <<new rows, new extents>>
    IF rs = <<>> THEN <<>>
    ELSE LET r == Head(rs)
             nz == RepackZ(mode, r)
             nl == IF nz = r.z THEN r.len ELSE StoredLen(r.k, nz)
         IN <<[r EXCEPT !.off = off, !.z = nz, !.len = nl]>> \o Relocate(Tail(rs), mode, off + nl)

RepackedPack(p, mode) ==
    LET rs == SetToSortSeq({r \in idx : r.p = p}, LAMBDA a, b : a.off < b.off \/ (a.off = b.off /\ a.len < b.len))
    IN Relocate(rs, mode, 0)

(* repack (container.py:2541-2765): every pack file, then VACUUM *)
Repack(h, mode) ==
    /\ idx' = UNION { {RepackedPack(p, mode)[i] : i \in DOMAIN RepackedPack(p, mode)} : p \in pex }
                \cup {r \in idx : r.p \notin pex}
    /\ pack' = [p \in PackIdsAll |->
                  IF p \in pex THEN [i \in DOMAIN RepackedPack(p, mode) |->
                                        LET r == RepackedPack(p, mode)[i] IN [k |-> r.k, z |-> r.z, len |-> r.len]]
                  ELSE pack[p]]
    /\ pex' = {p \in pex : \E r \in idx : r.p = p}
    /\ Unpin(h)
    /\ map' = map
    /\ last' = [Rec("repack", h, <<>>, {}, "") EXCEPT !.mode = mode]
    /\ repacked' = TRUE
    /\ UNCHANGED <<loose, cur>>

(* the read path (container.py:535-813): index (session snapshot), then loose, then fresh index *)
Found1(h, S) == S \cap KeysOf(V(h))
FoundLoose(h, S) == {k \in S \ Found1(h, S) : Present(k)}
NotFound1(h, S) == S \ (Found1(h, S) \cup FoundLoose(h, S))
Found2(h, S) == NotFound1(h, S) \cap KeysOf(idx)
Found(h, S) == Found1(h, S) \cup FoundLoose(h, S) \cup Found2(h, S)
LookupSession(h, S) == IF S = {} THEN KeepSession
                       ELSE IF NotFound1(h, S) = {} THEN SelPin(h) ELSE Refresh(h, idx)

Has(h, S) ==
    /\ LookupSession(h, S)
    /\ last' = [Rec("has", h, <<>>, Found(h, S), "") EXCEPT !.S = S]
    /\ UNCHANGED <<loose, pack, pex, idx, cur, map, repacked>>

(* list_all_objects (container.py:1160-1196) *)
Listed(h) == LoosePresent \cup KeysOf(IF ListUsesPinnedSnapshot THEN V(h) ELSE idx)
List(h) ==
    /\ IF ListUsesPinnedSnapshot THEN SelPin(h) ELSE Refresh(h, idx)
    /\ last' = Rec("list", h, <<>>, Listed(h), "")
    /\ UNCHANGED <<loose, pack, pex, idx, cur, map, repacked>>

(* a listing that the caller abandons after its first item (break in a for loop): the session was reloaded and the
   first SELECT has run, nothing else stays behind *)
ListPart(h) ==
    /\ IF ListUsesPinnedSnapshot THEN SelPin(h) ELSE Refresh(h, idx)
    /\ last' = Rec("listpart", h, <<>>, Listed(h), "")
    /\ UNCHANGED <<loose, pack, pex, idx, cur, map, repacked>>

(* loosen_object (container.py:1887-1925) *)
Loosen(h, k) ==
    /\ IF Present(k) THEN /\ UNCHANGED <<loose, pinned, snap>>
                          /\ last' = Rec("loosen", h, <<k>>, {}, "")
       ELSE /\ LookupSession(h, {k})
            /\ IF k \in Found(h, {k})
                  THEN loose' = [loose EXCEPT ![k] = "good"] /\ last' = Rec("loosen", h, <<k>>, {}, "")
                  ELSE UNCHANGED loose /\ last' = Rec("loosen", h, <<k>>, {}, "NotExistent")
    /\ UNCHANGED <<pack, pex, idx, cur, map, repacked>>

(* import_objects (container.py:2057-2279); `order` = the order in which objects reach the pack,
   `src` = the contents the source container holds *)
Import(h, S, z, samehash, order, src) ==
    LET avail == S \cap src
        fresh == IF samehash THEN avail \ (LoosePresent \cup KeysOf(V(h))) ELSE avail
        known == IF samehash THEN {} ELSE KeysOf(V(h))
        w0 == [W0(h) EXCEPT !.cur = IF fresh = {} THEN cur[h] ELSE ChoosePack(cur[h], pack, pex)]
        w == ToPack(w0, order, z, ~samehash, ~samehash, known)
    IN /\ {order[i] : i \in DOMAIN order} = fresh /\ Len(order) = Cardinality(fresh)
       /\ w.cur <= MaxPack
       /\ pack' = w.pack /\ pex' = w.pex
       /\ cur' = [cur EXCEPT ![h] = w.cur]
       /\ idx' = InsertOrIgnore(idx, w.rows)
       /\ Unpin(h)
       /\ map' = map \cup avail
       /\ last' = [Rec("import", h, order, fresh, "") EXCEPT !.S = S, !.z = z, !.sh = samehash]
       /\ UNCHANGED <<loose, repacked>>

(* close() and a new Container on the same folder *)
Reopen(h) ==
    /\ Unpin(h)
    /\ cur' = [cur EXCEPT ![h] = 0]
    /\ last' = Rec("reopen", h, <<>>, {}, "")
    /\ UNCHANGED <<loose, pack, pex, idx, map, repacked>>

(* init_container on an initialised folder refuses (container.py:345-349) *)
InitAgain(h) ==
    /\ last' = Rec("initagain", h, <<>>, {}, "FileExistsError")
    /\ UNCHANGED core

(* environment: a loose file is damaged (C09, C12) *)
Damage(k) ==
    /\ loose[k] = "good"
    /\ loose' = [loose EXCEPT ![k] = "bad"]
    /\ last' = Rec("damage", "-", <<k>>, {}, "")
    /\ UNCHANGED <<pack, pex, idx, pinned, snap, cur, map, repacked>>

-----------------------------------------------------------------------------
(* Stale lock files (container.py:1100-1123).  A writer killed inside lock_pack leaves <pack>.lock behind.  The next
   call that wants to write to that pack is refused with FileExistsError before it writes anything -- and lock_pack's
   `finally` removes the lock file although this caller did not create it, so the call after that goes through.  The
   actions above do not mention `locked`; NextWith and the conformance spec conjoin UNCHANGED locked to them and guard
   the pack-writing ones with ~Blocked. *)
FirstPack(h) == ChoosePack(cur[h], pack, pex)
Blocked(h) == FirstPack(h) \in locked
(* A call that rolls over into a locked pack after it has filled another one stores part of its batch and is refused
   then.  That case is left out: the next-state relation below only contains calls that leave every locked pack alone
   (the histories run on the code make the same restriction: the lock is removed first). *)
LeavesLockedAlone == \A p \in locked : pack'[p] = pack[p] /\ (p \in pex' <=> p \in pex)
Refuse(h, rec, pin) ==
    /\ Blocked(h)
    /\ locked' = locked \ {FirstPack(h)}
    /\ cur' = [cur EXCEPT ![h] = FirstPack(h)]
    /\ IF pin THEN SelPin(h) ELSE KeepSession
    /\ last' = rec
    /\ UNCHANGED <<loose, pack, pex, idx, map, repacked>>
Refusal == "FileExistsError"
AddToPackRefused(h, ks, z, noholes, twice) ==
    ks # <<>> /\ Refuse(h, [Rec("addpack", h, ks, {}, Refusal) EXCEPT !.z = z, !.nh = noholes, !.tw = twice], noholes)
PackRefused(h, mode, perpack) ==
    (LoosePresent \ KeysOf(V(h))) # {} /\ Refuse(h, [Rec("pack", h, <<>>, {}, Refusal) EXCEPT !.mode = mode, !.pp = perpack], TRUE)
ImportFresh(h, S, samehash, src) == IF samehash THEN (S \cap src) \ (LoosePresent \cup KeysOf(V(h))) ELSE S \cap src
ImportRefused(h, S, z, samehash, src) ==
    ImportFresh(h, S, samehash, src) # {} /\ Refuse(h, [Rec("import", h, <<>>, {}, Refusal) EXCEPT !.S = S, !.z = z, !.sh = samehash], TRUE)
(* environment: a writer was killed while it held the lock of the pack that is currently written to *)
LockStale == /\ locked = {} /\ ChoosePack(0, pack, pex) <= MaxPack
             /\ locked' = {ChoosePack(0, pack, pex)}
             /\ last' = Rec("stalelock", "-", <<>>, {}, "")
             /\ UNCHANGED core
Unlock == /\ locked # {} /\ locked' = {}
          /\ last' = Rec("unlock", "-", <<>>, {}, "")
          /\ UNCHANGED core

-----------------------------------------------------------------------------
(* Next-state relation over a finite alphabet of arguments (used by the    *)
(* exhaustive configurations and by the simulation that generates          *)
(* histories for replay on the real library).                              *)
(* (every disjunct is a separate action for TLC: its simulator picks an action first, then one of its successors) *)
NL == UNCHANGED <<locked, tmpleft>>
(* A repack killed while it copies leaves packs/-1 behind.  repack_pack (container.py:2605) refuses to start while that
   file exists -- before it touches anything -- so a full repack is refused as soon as there is a pack to repack; the
   operator has to look at the file and remove it. *)
TmpLeft == /\ ~tmpleft /\ tmpleft' = TRUE /\ last' = Rec("tmppack", "-", <<>>, {}, "") /\ UNCHANGED <<core, locked>>
TmpRemove == /\ tmpleft /\ tmpleft' = FALSE /\ last' = Rec("rmtmp", "-", <<>>, {}, "") /\ UNCHANGED <<core, locked>>
RepackRefused(h, mode) == /\ tmpleft /\ pex # {}
                          /\ last' = [Rec("repack", h, <<>>, {}, "AssertionError") EXCEPT !.mode = mode]
                          /\ UNCHANGED <<core, locked, tmpleft>>
NextWithLocks(Batches, DelSets, HasSets, ImpSets, Src, PackModes, RepackModes, WithLocks) ==
    \/ \E h \in Handles, k \in Keys : AddLoose(h, k) /\ NL
    \/ \E h \in Handles, ks \in Batches, z \in BOOLEAN, nh \in BOOLEAN, tw \in BOOLEAN :
          (nh \/ tw) /\ ~Blocked(h) /\ AddToPack(h, ks, z, nh, tw) /\ NL /\ LeavesLockedAlone
    \/ \E h \in Handles, mode \in PackModes, pp \in BOOLEAN :
          \E order \in SetToSeqs(LoosePresent \ KeysOf(V(h))) : (order = <<>> \/ ~Blocked(h)) /\ PackAllLoose(h, mode, pp, order) /\ NL /\ LeavesLockedAlone
    \/ \E h \in Handles : Clean(h) /\ NL
    \/ \E h \in Handles, S \in DelSets : Delete(h, S) /\ NL
    \/ \E h \in Handles, mode \in RepackModes : (~tmpleft \/ pex = {}) /\ Repack(h, mode) /\ NL
    \/ \E h \in Handles, mode \in RepackModes : WithLocks /\ RepackRefused(h, mode)
    \/ WithLocks /\ TmpLeft
    \/ WithLocks /\ TmpRemove
    \/ \E h \in Handles, S \in HasSets : Has(h, S) /\ NL
    \/ \E h \in Handles : List(h) /\ NL
    \/ \E h \in Handles : ListPart(h) /\ NL
    \/ \E h \in Handles, k \in Keys : Loosen(h, k) /\ NL
    \/ \E h \in Handles, S \in ImpSets, z \in BOOLEAN, sh \in BOOLEAN :
          \E order \in SetToSeqs(ImportFresh(h, S, sh, Src)) :
              (order = <<>> \/ ~Blocked(h)) /\ Import(h, S, z, sh, order, Src) /\ NL /\ LeavesLockedAlone
    \/ \E h \in Handles : Reopen(h) /\ NL
    \/ \E h \in Handles : InitAgain(h) /\ NL
    \/ WithLocks /\ LockStale /\ UNCHANGED tmpleft
    \/ WithLocks /\ Unlock /\ UNCHANGED tmpleft
    \/ \E h \in Handles, ks \in Batches, z \in BOOLEAN, nh \in BOOLEAN, tw \in BOOLEAN :
          WithLocks /\ (nh \/ tw) /\ AddToPackRefused(h, ks, z, nh, tw) /\ UNCHANGED tmpleft
    \/ \E h \in Handles, mode \in PackModes, pp \in BOOLEAN : WithLocks /\ PackRefused(h, mode, pp) /\ UNCHANGED tmpleft
    \/ \E h \in Handles, S \in ImpSets, z \in BOOLEAN, sh \in BOOLEAN : WithLocks /\ ImportRefused(h, S, z, sh, Src) /\ UNCHANGED tmpleft
NextWith(Batches, DelSets, HasSets, ImpSets, Src, PackModes, RepackModes) ==
    NextWithLocks(Batches, DelSets, HasSets, ImpSets, Src, PackModes, RepackModes, FALSE)

-----------------------------------------------------------------------------
(* Properties of the design                                                *)
Undamaged == \A k \in Keys : loose[k] # "bad"

TypeOK == /\ loose \in [Keys -> {"absent", "good", "bad"}]
          /\ pex \subseteq PackIdsAll
          /\ locked \subseteq PackIdsAll
          /\ tmpleft \in BOOLEAN
          /\ map \subseteq Keys

(* L1 refines L2: the store is the map *)
Refines == (LoosePresent \cup KeysOf(idx)) = map

(* C02 / C08: what any handle would answer now equals the map *)
ViewsEqualMap == \A h \in Handles : Found(h, Keys) = map
ListEqualsMap == \A h \in Handles : Listed(h) = map

Inv_IndexOK == Undamaged => IndexOK(ObsOf)
Inv_Dedup == Dedup(ObsOf)
Inv_PackNumbering == (~repacked) => PackNumbering(ObsOf, PackTarget)

SnapshotsAreOld == \A h \in Handles : pinned[h] => snap[h] \subseteq idx

(* action properties (evaluated on every transition) *)
IsOp(name) == last'.op = name
ObsPrime == ObsOf'

Act_AppendOnly ==
    [][ (~IsOp("repack")) =>
          \A p \in pex : /\ p \in pex'
                         /\ Len(pack'[p]) >= Len(pack[p])
                         /\ SubSeq(pack'[p], 1, Len(pack[p])) = pack[p] ]_vars

Act_OnlyLastPackGrows ==
    [][ (~repacked') => \A p \in pex : (pack'[p] # pack[p]) => (\A q \in pex : q <= p) ]_vars

Act_NoHoles ==
    [][ (IsOp("addpack") /\ last'.nh) => NoHolesPost(ObsOf, ObsOf', KeysOf(idx)) ]_vars

Act_DeleteExact ==
    [][ IsOp("delete") => /\ last'.res = (LoosePresent \cup KeysOf(idx)) \ (LoosePresent' \cup KeysOf(idx'))
                          /\ \A r \in idx' : r \in idx ]_vars

Act_RepackCompact == [][ IsOp("repack") => RepackCompact(ObsOf') ]_vars

Act_MaintenanceKeepsMap ==
    [][ (last'.op \in {"pack", "clean", "repack", "loosen", "reopen", "has", "list", "listpart", "initagain", "stalelock", "unlock", "tmppack", "rmtmp"}) => map' = map ]_vars
=============================================================================
