------------------------------ MODULE MC_Maint ------------------------------
EXTENDS DosMaint
MCKeys == {"k1", "k2", "k3", "k4"}
L(good) == [k \in MCKeys |-> IF k \in good THEN "good" ELSE "absent"]
R(k, p, pos) == [k |-> k, p |-> p, pos |-> pos]
(* pre-states: a pack with a deleted object, two packs one of which is emptied, only loose objects *)
PreDel   == [loose |-> L({"k4"}), packs |-> (0 :> <<"k1", "k2", "k3">> @@ 1 :> <<>>), exists |-> {0},
             idx |-> {R("k1", 0, 1), R("k3", 0, 3)}]
PreTwo   == [loose |-> L({"k1"}), packs |-> (0 :> <<"k1", "k2">> @@ 1 :> <<"k3">>), exists |-> {0, 1},
             idx |-> {R("k1", 0, 1), R("k2", 0, 2)}]
PreLoose == [loose |-> L({"k1", "k2", "k3"}), packs |-> (0 :> <<>> @@ 1 :> <<>>), exists |-> {}, idx |-> {}]
PreBoth  == [loose |-> L({"k1", "k2"}), packs |-> (0 :> <<"k1">> @@ 1 :> <<>>), exists |-> {0}, idx |-> {R("k1", 0, 1)}]

One == [k \in MCKeys |-> 1]
Szs == [k \in MCKeys |-> IF k = "k3" THEN 3 ELSE IF k = "k2" THEN 2 ELSE 1]
CX(op, pre, ks, nh, pp, sz, target, budget) ==
    [op |-> op, pre |-> pre, ks |-> ks, noholes |-> nh, perpack |-> pp, sz |-> sz, target |-> target, budget |-> budget]
C(op, pre, ks, nh, pp) == CX(op, pre, ks, nh, pp, One, 99, 99)
PreNone == [loose |-> L({}), packs |-> (0 :> <<>> @@ 1 :> <<>>), exists |-> {}, idx |-> {}]

MCCases ==
    {C("repack", pre, <<>>, FALSE, FALSE) : pre \in {PreDel, PreTwo, PreBoth}}
    \cup {C("delete", pre, ks, FALSE, FALSE) : pre \in {PreDel, PreBoth}, ks \in {<<"k1">>, <<"k4", "k3">>, <<"k2", "k1", "k4">>}}
    \cup {C("addpack", pre, ks, nh, FALSE) : pre \in {PreDel, PreLoose, PreBoth}, nh \in BOOLEAN,
              ks \in {<<"k4">>, <<"k1", "k4">>, <<"k1", "k1", "k4", "k2">>, <<"k4", "k1", "k2", "k4">>}}
    \cup {C("pack", PreLoose, ks, FALSE, pp) : pp \in BOOLEAN, ks \in {<<"k1", "k2", "k3">>, <<"k3", "k1", "k2">>}}
    \cup {C("pack", PreBoth, <<"k2">>, FALSE, pp) : pp \in BOOLEAN}
    \cup {C("clean", PreBoth, <<"k1">>, FALSE, FALSE), C("clean", PreTwo, <<"k1">>, FALSE, FALSE)}
    (* roll-over to the next pack (target 2 or 3 units), with and without no_holes / per-pack cleaning *)
    \cup {CX("addpack", pre, ks, nh, FALSE, One, 2, 99) : pre \in {PreNone, PreBoth}, nh \in BOOLEAN,
              ks \in {<<"k2", "k3", "k4">>, <<"k1", "k2", "k1", "k3">>}}
    \cup {CX("pack", PreLoose, ks, FALSE, pp, Szs, 3, 99) : pp \in BOOLEAN, ks \in {<<"k1", "k2", "k3">>, <<"k3", "k1", "k2">>}}
    (* import: batches by memory budget, objects above the budget, roll-over, keys the destination already has *)
    \cup {CX("import", pre, ks, FALSE, FALSE, Szs, target, budget) : pre \in {PreNone, PreBoth}, target \in {3, 99}, budget \in {1, 2, 3, 99},
              ks \in {<<"k1", "k2", "k3", "k4">>, <<"k3", "k4", "k2">>}}
    \cup {C("add", pre, <<k>>, FALSE, FALSE) : pre \in {PreBoth, PreLoose}, k \in {"k1", "k4"}}
==============================================================================
