SPECIFICATION Spec
CONSTANTS
  Keys <- MCKeys
  Snap <- MCSnap
  Idx <- MCIdx
  Loose <- MCLoose
  Requests <- MCRequests
  InMax = 2
  MaxChunkIterate = 3
  SkipIfMissing = TRUE
  IterateRequestList = FALSE
  RetryKeepsDuplicates = FALSE
  NoRetry = FALSE
INVARIANT EachKeyOnce
INVARIANT Pointwise
