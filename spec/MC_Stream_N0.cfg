SPECIFICATION Spec
CONSTANTS
  N = 0
  MaxPos = 6
  ReadSizes <- MCReadSizes
  SeekTargets <- MCSeekTargets
INVARIANT TypeOK
INVARIANT ReadsInside
INVARIANT PositionSane
PROPERTY InRangeLikeMemoryFile
PROPERTY RejectedKeepsPosition
