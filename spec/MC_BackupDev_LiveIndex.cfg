SPECIFICATION Spec
CONSTANTS
  Keys <- MCKeys
  Loose0 <- MCLoose0
  Packed0 <- MCPacked0
  AddKeys <- MCAdds
  DirectKeys <- MCDirect
  PackRounds = 2
  CleanRounds = 2
  Order <- OrderCode
  PrevIdx <- MCPrevIdx
  Incremental = FALSE
  IdxByChecksum = TRUE
  RestCopiesLiveIndex = TRUE
INVARIANT BackupValid
INVARIANT SourceOK
