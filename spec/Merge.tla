-------------------------------- MODULE Merge --------------------------------
(***************************************************************************)
(* Transcription of utils.detect_where_sorted (utils.py:1380-1504) and of  *)
(* merge_sorted built on it: one action per loop iteration, the same       *)
(* variables as the code.  Checked for every pair of input sequences of a  *)
(* small universe: for sorted duplicate-free inputs every element of the   *)
(* union is classified exactly once, correctly and in order; any input     *)
(* with a disorder or a duplicate is rejected (C16).                       *)
(***************************************************************************)
EXTENDS Integers, Sequences, FiniteSets, TLC

CONSTANTS Inputs      \* set of <<L, R>> pairs to explore

VARIABLES L, R,       \* the two input sequences
          li, ri,     \* number of elements consumed from L / R
          lastL, lastR, lex, rex, nowLeft,
          out,        \* sequence of <<element, where>>, where in {"L", "B", "R"}
          pc          \* "start" | "loop" | "done" | "error"

vars == <<L, R, li, ri, lastL, lastR, lex, rex, nowLeft, out, pc>>

Init == /\ \E p \in Inputs : L = p[1] /\ R = p[2]
        /\ li = 0 /\ ri = 0 /\ lastL = 0 /\ lastR = 0
        /\ lex = FALSE /\ rex = FALSE /\ nowLeft = TRUE /\ out = <<>> /\ pc = "start"

(* the two initial next() calls and the choice of the side that is behind *)
Start ==
    /\ pc = "start"
    /\ LET le == Len(L) = 0
           re == Len(R) = 0
           l1 == IF le THEN 0 ELSE L[1]
           r1 == IF re THEN 0 ELSE R[1]
       IN /\ lex' = le /\ rex' = re
          /\ li' = IF le THEN 0 ELSE 1
          /\ ri' = IF re THEN 0 ELSE 1
          /\ lastL' = l1 /\ lastR' = r1
          /\ nowLeft' = ~(le \/ (~re /\ l1 > r1))
          /\ pc' = IF le /\ re THEN "done" ELSE "loop"
    /\ UNCHANGED <<L, R, out>>

Iterate ==
    /\ pc = "loop"
    /\ LET yieldLeftOnly  == <<lastL, "L">>
           yieldBoth      == <<lastL, "B">>
           yieldRightOnly == <<lastR, "R">>
           \* what is yielded, whether both advance, and the value of now_left after the yield
           d == IF nowLeft
                  THEN IF rex THEN <<yieldLeftOnly, FALSE, TRUE>>
                       ELSE IF lastL = lastR THEN <<yieldBoth, TRUE, TRUE>>
                       ELSE IF lastL < lastR THEN <<yieldLeftOnly, FALSE, TRUE>>
                       ELSE <<yieldRightOnly, FALSE, FALSE>>
                  ELSE IF lex THEN <<yieldRightOnly, FALSE, FALSE>>
                       ELSE IF lastL = lastR THEN <<yieldBoth, TRUE, FALSE>>
                       ELSE IF lastL > lastR THEN <<yieldRightOnly, FALSE, FALSE>>
                       ELSE <<yieldLeftOnly, FALSE, TRUE>>
           nl == d[3]
           both == d[2]
           advL == nl \/ both
           advR == (~nl) \/ both
           lEnd == advL /\ li = Len(L)                 \* StopIteration on the left
           lBad == advL /\ ~lEnd /\ L[li + 1] <= lastL   \* ValueError on the left
           rEnd == advR /\ ri = Len(R)
           rBad == advR /\ ~rEnd /\ R[ri + 1] <= lastR
           lex2 == lex \/ lEnd
           rex2 == rex \/ rEnd
           nnl0 == IF lEnd THEN FALSE ELSE nl
           nnl == IF advR /\ rEnd /\ ~lBad THEN TRUE ELSE nnl0
       IN /\ out' = Append(out, d[1])
          /\ IF lBad \/ (rBad /\ ~lBad)
                THEN /\ pc' = "error"
                     /\ UNCHANGED <<li, ri, lastL, lastR, lex, rex, nowLeft>>
                ELSE /\ li' = IF advL /\ ~lEnd THEN li + 1 ELSE li
                     /\ lastL' = IF advL /\ ~lEnd THEN L[li + 1] ELSE lastL
                     /\ ri' = IF advR /\ ~rEnd THEN ri + 1 ELSE ri
                     /\ lastR' = IF advR /\ ~rEnd THEN R[ri + 1] ELSE lastR
                     /\ lex' = lex2 /\ rex' = rex2
                     /\ nowLeft' = nnl
                     /\ pc' = IF lex2 /\ rex2 THEN "done" ELSE "loop"
    /\ UNCHANGED <<L, R>>

Next == Start \/ Iterate
Spec == Init /\ [][Next]_vars

-----------------------------------------------------------------------------
Range(s) == {s[i] : i \in DOMAIN s}
SortedUnique(s) == \A i \in 1..(Len(s) - 1) : s[i] < s[i + 1]
GoodInput == SortedUnique(L) /\ SortedUnique(R)

Where(x) == IF x \in Range(L) /\ x \in Range(R) THEN "B" ELSE IF x \in Range(L) THEN "L" ELSE "R"

(* at the end: each element of the union exactly once, correctly classified, in increasing order *)
ClassifiesExactlyOnce ==
    (pc = "done" /\ GoodInput) =>
        /\ {out[i][1] : i \in DOMAIN out} = Range(L) \cup Range(R)
        /\ Len(out) = Cardinality(Range(L) \cup Range(R))
        /\ \A i \in DOMAIN out : out[i][2] = Where(out[i][1])
        /\ \A i \in 1..(Len(out) - 1) : out[i][1] < out[i + 1][1]

(* sorted unique input is never rejected; anything else is never accepted *)
RejectsExactlyBadInput == /\ (pc = "error") => ~GoodInput
                          /\ (pc = "done") => GoodInput

(* what has been yielded so far is always correct (streaming use) *)
PrefixCorrect == GoodInput => \A i \in DOMAIN out : out[i][2] = Where(out[i][1])

Terminates == <>(pc \in {"done", "error"})
=============================================================================
