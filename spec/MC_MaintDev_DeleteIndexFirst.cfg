SPECIFICATION Spec
CONSTANTS
  Keys <- MCKeys
  Cases <- MCCases
  AllowPower = TRUE
  RepackCommitBeforeFsync = FALSE
  RepackUnlinkOldFirst = FALSE
  SeekBackWithoutTruncate = FALSE
  RepackNoIntermediateCommit = FALSE
  ImportFsyncOnlyLast = FALSE
  DeleteIndexFirst = TRUE
INVARIANT Recoverable
INVARIANT KeysUnique
INVARIANT DurableVisible
INVARIANT Completed
