-------------------------------- MODULE Bulk --------------------------------
(***************************************************************************)
(* C16, bulk reads at design level: a transcription of                     *)
(* Container._get_objects_stream_meta_generator (container.py:535-790),    *)
(* the engine behind has_objects / get_objects_meta / get_objects_content /*)
(* get_objects_stream_and_meta.  One action per loop iteration, same       *)
(* variables as the code:                                                  *)
(*   todo      what is still to be looked up in the index (first pass)     *)
(*   inpacks   hashkeys_in_packs                                           *)
(*   loosetodo keys to try as loose files                                  *)
(*   notfound  loose_not_found                                             *)
(*   out       what has been yielded so far: <<key, where>>                *)
(* The request is a sequence with repetitions; the first pass uses the     *)
(* session snapshot `Snap`, the retry pass the fresh index `Idx`           *)
(* (Snap \subseteq Idx: a concurrent packer may have committed since).     *)
(* Strategy: at most MaxChunkIterate distinct keys -> IN queries of at     *)
(* most InMax keys; otherwise one sorted scan merged with the sorted       *)
(* request (Merge.tla models that helper).                                 *)
(* Switches: IterateRequestList (chunks are cut from the request list, not *)
(* from the set of distinct keys), RetryKeepsDuplicates (the retry pass    *)
(* yields a key once per chunk that contains it), NoRetry.                 *)
(***************************************************************************)
EXTENDS Integers, Sequences, FiniteSets, TLC

CONSTANTS Keys, Snap, Idx, Loose,          \* sets of keys: indexed in the snapshot / now, loose files present
          Requests,                        \* set of request sequences to explore
          InMax, MaxChunkIterate, SkipIfMissing,
          IterateRequestList, RetryKeepsDuplicates, NoRetry

ASSUME Snap \subseteq Idx /\ Idx \subseteq Keys /\ Loose \subseteq Keys

VARIABLES req, pc, todo, inpacks, loosetodo, notfound, retry, out

vars == <<req, pc, todo, inpacks, loosetodo, notfound, retry, out>>
Range(s) == {s[i] : i \in DOMAIN s}
Distinct == Range(req)

Init == /\ req \in Requests
        /\ pc = "start" /\ todo = <<>> /\ inpacks = {} /\ loosetodo = {} /\ notfound = {} /\ retry = <<>> /\ out = <<>>

(* hashkeys_set = set(hashkeys); the keys are looked up in some order (set iteration order is arbitrary) *)
Perms(S) == {s \in [1..Cardinality(S) -> S] : \A i, j \in DOMAIN s : i # j => s[i] # s[j]}
Start == /\ pc = "start"
         /\ IF IterateRequestList THEN todo' = req ELSE todo' \in Perms(Distinct)
         /\ pc' = IF Cardinality(Distinct) <= MaxChunkIterate THEN "chunks" ELSE "scan"
         /\ UNCHANGED <<req, inpacks, loosetodo, notfound, retry, out>>

Min(a, b) == IF a < b THEN a ELSE b
(* one IN query: the rows of the snapshot among the next InMax keys.  Results are collected per pack and yielded
   after all queries; each result row is one yield *)
Chunk == /\ pc = "chunks" /\ todo # <<>>
         /\ LET n == Min(InMax, Len(todo))
                chunk == SubSeq(todo, 1, n)
                hits == SelectSeq(chunk, LAMBDA k : k \in Snap)
            IN /\ out' = out \o [i \in DOMAIN hits |-> <<hits[i], "packed">>]
               /\ inpacks' = inpacks \cup Range(hits)
               /\ todo' = SubSeq(todo, n + 1, Len(todo))
         /\ UNCHANGED <<req, pc, loosetodo, notfound, retry>>
ChunksDone == /\ pc = "chunks" /\ todo = <<>>
              /\ pc' = "loose" /\ loosetodo' = Distinct \ inpacks
              /\ UNCHANGED <<req, todo, inpacks, notfound, retry, out>>
(* the sorted scan: every row of the snapshot whose key is requested, once *)
Scan == /\ pc = "scan"
        /\ \E order \in Perms(Distinct \cap Snap) :
              out' = out \o [i \in DOMAIN order |-> <<order[i], "packed">>]
        /\ inpacks' = Distinct \cap Snap
        /\ pc' = "loose" /\ loosetodo' = Distinct \ (Distinct \cap Snap) /\ todo' = <<>>
        /\ UNCHANGED <<req, notfound, retry>>

(* for loose_hashkey in hashkeys_set.difference(hashkeys_in_packs): open / stat, FileNotFoundError -> loose_not_found *)
LooseOne == /\ pc = "loose" /\ \E k \in loosetodo :
                 /\ loosetodo' = loosetodo \ {k}
                 /\ IF k \in Loose THEN out' = Append(out, <<k, "loose">>) /\ notfound' = notfound
                                   ELSE out' = out /\ notfound' = notfound \cup {k}
            /\ UNCHANGED <<req, pc, todo, inpacks, retry>>
LooseDone == /\ pc = "loose" /\ loosetodo = {}
             /\ IF notfound = {} \/ NoRetry
                   THEN pc' = "missing" /\ retry' = <<>>
                   ELSE /\ pc' = IF Cardinality(notfound) <= MaxChunkIterate THEN "retry" ELSE "retryscan"
                        /\ IF RetryKeepsDuplicates THEN retry' = SelectSeq(req, LAMBDA k : k \in notfound)
                                                   ELSE retry' \in Perms(notfound)
             /\ UNCHANGED <<req, todo, inpacks, loosetodo, notfound, out>>

(* the retry on a fresh session (a concurrent packer may have packed and cleaned the object meanwhile) *)
Retry == /\ pc = "retry" /\ retry # <<>>
         /\ LET n == Min(InMax, Len(retry))
                chunk == SubSeq(retry, 1, n)
                hits == SelectSeq(chunk, LAMBDA k : k \in Idx)
            IN /\ out' = out \o [i \in DOMAIN hits |-> <<hits[i], "packed">>]
               /\ notfound' = notfound \ Range(hits)
               /\ retry' = SubSeq(retry, n + 1, Len(retry))
         /\ UNCHANGED <<req, pc, todo, inpacks, loosetodo>>
RetryScan == /\ pc = "retryscan"
             /\ \E order \in Perms(notfound \cap Idx) : out' = out \o [i \in DOMAIN order |-> <<order[i], "packed">>]
             /\ notfound' = notfound \ Idx /\ retry' = <<>> /\ pc' = "missing"
             /\ UNCHANGED <<req, todo, inpacks, loosetodo>>
RetryDone == /\ pc = "retry" /\ retry = <<>> /\ pc' = "missing"
             /\ UNCHANGED <<req, todo, inpacks, loosetodo, notfound, retry, out>>

(* if not skip_if_missing: yield (hashkey, None / missing meta) for what is left *)
Missing == /\ pc = "missing"
           /\ IF SkipIfMissing THEN out' = out
              ELSE \E order \in Perms(notfound) : out' = out \o [i \in DOMAIN order |-> <<order[i], "missing">>]
           /\ pc' = "done"
           /\ UNCHANGED <<req, todo, inpacks, loosetodo, notfound, retry>>

Next == Start \/ Chunk \/ ChunksDone \/ Scan \/ LooseOne \/ LooseDone \/ Retry \/ RetryScan \/ RetryDone \/ Missing
Spec == Init /\ [][Next]_vars

-----------------------------------------------------------------------------
(* what the single-key call answers *)
Single(k) == IF k \in Idx THEN "packed" ELSE IF k \in Loose THEN "loose" ELSE "missing"
(* a key loose *and* indexed only since the snapshot is legitimately served from the loose file *)
Allowed(k) == {Single(k)} \cup (IF k \in Loose /\ k \notin Snap THEN {"loose"} ELSE {})
Count(k) == Cardinality({i \in DOMAIN out : out[i][1] = k})
Done == pc = "done"
EachKeyOnce == Done => \A k \in Keys :
                   Count(k) = (IF k \in Distinct /\ ~(SkipIfMissing /\ Single(k) = "missing") THEN 1 ELSE 0)
Pointwise == \A i \in DOMAIN out : out[i][1] \in Distinct /\ out[i][2] \in Allowed(out[i][1])
(* without a concurrent packer the results come in phases (used as conformance predicate on recorded calls) *)
Rank(w) == CASE w = "packed" -> 1 [] w = "loose" -> 2 [] OTHER -> 3
PhaseOrder == (Snap = Idx) => \A i, j \in DOMAIN out : i < j => Rank(out[i][2]) <= Rank(out[j][2])
Terminates == <>Done
=============================================================================
