SPECIFICATION Spec
CONSTANTS Inputs <- AnyInputs
INVARIANT ClassifiesExactlyOnce
INVARIANT RejectsExactlyBadInput
INVARIANT PrefixCorrect
