------------------------------- MODULE SeqTrace -------------------------------
(***************************************************************************)
(* Trace monitor for sequential histories (code -> spec, monitor mode).    *)
(*                                                                         *)
(* Input: an ndjson file (environment variable TRACE_FILE).  Line 1 is a   *)
(* header (content sizes, key universe); every further line is one history *)
(* recorded from the real library: for each step the call (op), its result *)
(* and the observation made *after* the call:                              *)
(*   obs   raw projection of the folder (sqlite3 + zlib + hashlib only)    *)
(*   views what a fresh handle answers through the public API              *)
(*   grow  byte-level facts about each pack before/after the step          *)
(*   val   outcome of validate()                                           *)
(* The monitor keeps the L2 oracle `map` (a plain set of keys updated by   *)
(* the abstract meaning of each call) and evaluates every property         *)
(* predicate in every state of every recorded history.  It never blocks:   *)
(* a violated INVARIANT is a property violation observed on the real code. *)
(***************************************************************************)
EXTENDS DosPred, TLC, Json, IOUtils

All == ndJsonDeserialize(IOEnv.TRACE_FILE)
Header == All[1]
NTraces == Len(All) - 1
Trace(t) == All[t + 1]
Universe == SeqToSet(Header.universe)
SizeOf(k) == IF k \in DOMAIN Header.sizes THEN Header.sizes[k] ELSE 0 - 1

VARIABLES tid, l, map, mapPrev

vars == <<tid, l, map, mapPrev>>

Line(t, i) == Trace(t).lines[i]
cur == Line(tid, l)
prev == Line(tid, IF l > 1 THEN l - 1 ELSE 1)
op == cur.op

Init == /\ tid \in 1..NTraces
        /\ l = 1
        /\ map = {}
        /\ mapPrev = {}

KeySet(s) == SeqToSet(s)

(* L2: the meaning of each call on a plain set of keys (content-addressed map) *)
MapStep(m, o) ==
    CASE o.name = "add"     -> m \cup KeySet(o.keys)
      [] o.name = "readd"   -> m \cup KeySet(o.keys)    \* damage the loose copy (if any), then store the content again
      [] o.name = "addpack" -> IF o.raised = "FileExistsError" THEN m ELSE m \cup KeySet(o.keys)
      [] o.name = "delete"  -> m \ KeySet(o.keys)
      [] o.name = "import"  -> IF o.raised = "FileExistsError" THEN m ELSE m \cup (KeySet(o.keys) \cap KeySet(o.src))
      [] OTHER              -> m

Next == /\ l < Len(Trace(tid).lines)
        /\ l' = l + 1
        /\ tid' = tid
        /\ mapPrev' = map
        /\ map' = MapStep(map, Line(tid, l + 1).op)

Spec == Init /\ [][Next]_vars

-----------------------------------------------------------------------------
O == cur.obs
O0 == prev.obs
V == cur.views
Target == Trace(tid).cfg.target
IsStep == l > 1
Mutating == op.name \in {"add", "addpack", "pack", "clean", "repack", "delete", "loosen", "import"}
NonRepack == op.name # "repack"

(* ---- C02: every view equals the map ---- *)
ViewHas == KeySet(V.has) = map
ViewGetBulk == /\ \A g \in KeySet(V.got) : IF g.k \in map THEN g.cls = "OK" ELSE g.cls = "NONE"
               /\ {g.k : g \in KeySet(V.got)} = Universe
ViewGetSingle == /\ \A g \in KeySet(V.single) : IF g.k \in map THEN g.cls = "OK" ELSE g.cls = "NotExistent"
                 /\ {g.k : g \in KeySet(V.single)} = Universe
ViewMeta == /\ \A g \in KeySet(V.metas) : IF g.k \in map THEN (g.type # "missing" /\ g.size = SizeOf(g.k))
                                                       ELSE g.type = "missing"
            /\ {g.k : g \in KeySet(V.metas)} = Universe
ViewList == /\ KeySet(V.listed) = map
            /\ Len(V.listed) = Cardinality(map)
ViewCount == /\ V.count.packed = Len(O.rows)
             /\ V.count.loose = Len(O.loose)
             /\ V.count.packs = Len(O.packs)
StoreIsMap == StoreKeys(O) = map

(* what the call itself returned / raised *)
(* a call that finds the lock file of a killed writer is refused and changes nothing *)
Refused == /\ op.raised = "FileExistsError" /\ op.name \in {"addpack", "pack", "import"}
           /\ O0.locks # <<>>
           /\ O.loose = O0.loose /\ O.rows = O0.rows /\ O.packs = O0.packs
(* a repack that finds the temporary pack of an interrupted repack refuses to start and changes nothing *)
RepackRefusedOK == /\ O0.tmp /\ O.tmp
                   /\ O.loose = O0.loose /\ O.rows = O0.rows /\ O.packs = O0.packs
ResultOK ==
    IF op.raised = "FileExistsError" /\ op.name \in {"addpack", "pack", "import"} THEN Refused ELSE
    IF op.raised = "AssertionError" /\ op.name = "repack" THEN RepackRefusedOK ELSE
    CASE op.name = "add"     -> op.raised = "" /\ op.res = op.keys
      [] op.name = "readd"   -> op.raised = "" /\ op.res = op.keys
      [] op.name = "addpack" -> op.raised = "" /\ op.res = op.keys
      [] op.name = "delete"  -> /\ op.raised = ""
                                /\ KeySet(op.res) = KeySet(op.keys) \cap mapPrev
                                /\ Len(op.res) = Cardinality(KeySet(op.res))
      [] op.name = "loosen"  -> IF op.keys[1] \in mapPrev THEN op.raised = "" ELSE op.raised = "NotExistent"
      [] op.name = "initagain" -> op.raised = "FileExistsError"
      [] op.name = "has"     -> op.raised = "" /\ KeySet(op.res) = KeySet(op.keys) \cap mapPrev
      [] op.name = "get"     -> op.raised = "" /\ KeySet(op.res) = KeySet(op.keys) \cap mapPrev
      [] op.name = "meta"    -> op.raised = "" /\ KeySet(op.res) = KeySet(op.keys) \cap mapPrev
      [] op.name = "list"    -> op.raised = "" /\ KeySet(op.res) = mapPrev /\ Len(op.res) = Cardinality(mapPrev)
      [] op.name = "listpart" -> /\ op.raised = "" /\ KeySet(op.res) \subseteq mapPrev
                                 /\ Len(op.res) = (IF mapPrev = {} THEN 0 ELSE 1)      \* abandoned after the first item
      [] op.name = "import"  -> /\ op.raised = ""       \* res = source keys mentioned by a correct mapping
                                /\ KeySet(op.res) \subseteq (KeySet(op.keys) \cap KeySet(op.src))
                                /\ ((KeySet(op.keys) \cap KeySet(op.src)) \ mapPrev) \subseteq KeySet(op.res)
      [] op.name = "clean"   -> \* clean_storage refuses to guess when a stray duplicate belongs to no stored object
                                \/ op.raised = ""
                                \/ (op.raised = "InconsistentContent" /\ \E d \in KeySet(O0.dups) : d \notin mapPrev)
      [] OTHER               -> op.raised = ""

C02_Views == IsStep => /\ ViewHas /\ ViewGetBulk /\ ViewGetSingle /\ ViewMeta /\ ViewList /\ ViewCount /\ StoreIsMap
C02_Result == IsStep => ResultOK

(* ---- C08: views through long-open handles (explicit view calls of the history) ---- *)
C08_HandleViews == (IsStep /\ op.name \in {"has", "get", "meta", "list", "listpart"}) => ResultOK

(* ---- C14: importing transfers exactly the requested objects ---- *)
C14_ImportExact == (IsStep /\ op.name = "import") =>
    /\ ResultOK
    /\ ViewHas /\ ViewGetBulk /\ ViewGetSingle /\ ViewMeta /\ ViewList /\ StoreIsMap
    /\ \A r \in Rows(O0) : r \in Rows(O)                       \* other destination objects untouched
    /\ SeqToSet(O0.loose) = SeqToSet(O.loose)
    /\ IndexOK(O)
    /\ (op.samehash => \A r \in Rows(O) : (r \notin Rows(O0)) => r.k \notin mapPrev)  \* held objects not written again
    (* ... "at all": with the same hash algorithm the packs grow by exactly the stored bytes of the new entries *)
    /\ (op.samehash => SumPackLens(Packs(O)) - SumPackLens(Packs(O0)) = SumLens(Rows(O) \ Rows(O0)))

(* ---- C03 ---- *)
C03_IndexOK == IndexOK(O)

(* ---- C09 ---- *)
C09_Dedup == Dedup(O) /\ (IsStep => Len(V.listed) = Cardinality(KeySet(V.listed)))
(* re-adding content whose loose copy was damaged leaves a correct copy in place *)
C09_DamagedCopyRepaired == (IsStep /\ op.name = "readd") =>
    /\ LooseNamedByDigest(O) /\ ViewGetBulk /\ ViewGetSingle
    /\ \A k \in KeySet(op.keys) : k \in StoreKeys(O)
C09_NoHoles == (IsStep /\ op.name = "addpack" /\ op.noholes) => NoHolesPost(O0, O, RowKeys(O0))
(* storing known content: same key, and with the no-holes option no pack grows for it *)
C09_KnownNoGrowth ==
    (IsStep /\ op.name = "addpack" /\ op.noholes /\ KeySet(op.keys) \subseteq RowKeys(O0))
        => (\A pk \in Packs(O) : pk.p \in PackIds(O0) => pk.len = PackLen(O0, pk.p))
(* the same-hash import never writes an object the destination already holds *)
C09_ImportKnownNotWritten ==
    (IsStep /\ op.name = "import" /\ op.samehash /\ (KeySet(op.keys) \cap KeySet(op.src)) \subseteq mapPrev)
        => (\A pk \in Packs(O) : pk.p \in PackIds(O0) /\ pk.len = PackLen(O0, pk.p)) /\ Len(O.packs) = Len(O0.packs)

(* ---- C10 ---- *)
C10_Mode == /\ (IsStep /\ op.name = "pack") => PackModeHonoured(O0, O, op.mode)
            /\ (IsStep /\ op.name = "repack" /\ op.raised = "") => RepackModeHonoured(O0, O, op.mode)
C10_Sizes == /\ \A r \in Rows(O) : r.size = SizeOf(r.k)
             /\ IsStep => \A g \in KeySet(V.metas) :
                   g.type = "packed" => \E r \in Rows(O) : r.k = g.k /\ r.z = g.z /\ r.len = g.len /\ r.size = g.size
                                                           /\ r.p = g.p /\ r.off = g.off
C10_Totals == IsStep => TotalsAreSums(O, V.total)
C10_Transparent == (IsStep /\ op.name \in {"pack", "repack"}) => (ViewGetBulk /\ ViewGetSingle /\ StoreKeys(O) = StoreKeys(O0))

(* ---- C11 ---- *)
C11_DeleteExact == (IsStep /\ op.name = "delete") =>
    /\ StoreKeys(O) = StoreKeys(O0) \ KeySet(op.keys)
    /\ KeySet(op.res) = KeySet(op.keys) \cap StoreKeys(O0)
    /\ \A r \in Rows(O) : r \in Rows(O0)            \* other rows untouched
    /\ ViewHas /\ ViewGetBulk /\ ViewList
(* stray duplicate files of the deleted objects go away with them ... *)
C11_DeleteRemovesDuplicates == (IsStep /\ op.name = "delete") => \A d \in KeySet(O.dups) : d \notin KeySet(op.keys)
(* ... so that a later clean_storage does not stumble over them *)
C11_CleanAfterDelete == (IsStep /\ op.name = "clean") =>
    (op.raised = "" \/ \E d \in KeySet(O0.dups) : d \notin mapPrev)
C11_RepackCompact == (IsStep /\ op.name = "repack" /\ op.raised = "") => RepackCompact(O)

(* ---- C12 (no false positives) ---- *)
C12_ValidateClean == IsStep => cur.val = "clean"

(* ---- C13 ---- *)
C13_AppendOnly == (IsStep /\ NonRepack) => AppendOnly(O0, O, cur.grow)
C13_Numbering == cur.norepack => PackNumbering(O, Target)
C13_OnlyLastGrows == (IsStep /\ cur.norepack) => OnlyLastPackGrows(O0, O)
C13_FilledInOrder == cur.norepack => FilledInOrder(O)

(* ---- C18 (descriptor census after each call; the harness counts /proc/self/fd) ---- *)
C18_NoFdLeak == IsStep => cur.fds = 0
(* after the history's handles are closed the process holds no descriptor inside the folder *)
C18_ClosedNoFds == cur.closedfds = 0

(* ---- acceptance: every line of every trace is consumed (the monitor never blocks) ---- *)
Consumed == TRUE
=============================================================================
