------------------------------- MODULE SeqConf -------------------------------
(***************************************************************************)
(* Conformance of recorded histories to the design model (code -> spec,    *)
(* conformance mode): every recorded call must be a step of DosSeq whose   *)
(* successor state projects exactly onto the observed raw state of the     *)
(* container folder (loose files, index rows, pack lengths).  What the     *)
(* code leaves open (the order in which a set of loose keys is packed, the *)
(* order in which imported objects reach the pack) is read off the         *)
(* observation; everything else - which keys are written, into which pack, *)
(* at which offset, with which flag and length, what is removed, what each *)
(* handle's session sees afterwards - is computed by the model.            *)
(* A trace that cannot be continued is reported as MODEL-DRIFT, not as a   *)
(* property violation (see DESIGN.md section 5).                           *)
(***************************************************************************)
EXTENDS DosSeq, Json, IOUtils

All == ndJsonDeserialize(IOEnv.TRACE_FILE)
NTraces == Len(All) - 1
Trace(t) == All[t + 1]

VARIABLES tid, l
cvars == <<vars, tid, l>>

Lines == Trace(tid).lines
S2(s) == {s[i] : i \in DOMAIN s}

RowLess(a, b) == \/ a.p < b.p
                 \/ (a.p = b.p /\ a.off < b.off)
                 \/ (a.p = b.p /\ a.off = b.off /\ a.len < b.len)
NewRowKeys(o) == LET new == {r \in S2(o.rows) : r.k \notin KeysOf(idx)}
                     s == SetToSortSeq(new, RowLess)
                 IN [i \in DOMAIN s |-> s[i].k]
(* keys reaching the pack first (observed), then the ones the call skipped *)
ImportOrders(o, fresh) == LET written == SelectSeq(NewRowKeys(o), LAMBDA k : k \in fresh)
                              rest == SetToSeq(fresh \ S2(written))
                          IN {written \o rest, rest \o written}

Plain(r) == [k |-> r.k, p |-> r.p, off |-> r.off, len |-> r.len, z |-> r.z, size |-> r.size]

ObsMatches(o) ==
    /\ {[k |-> x.k, tag |-> x.tag] : x \in S2(o.loose)} = {[k |-> k, tag |-> loose'[k]] : k \in {q \in Keys : loose'[q] # "absent"}}
    /\ {Plain(r) : r \in S2(o.rows)} = idx'
    /\ {[p |-> x.p, len |-> x.len] : x \in S2(o.packs)} = {[p |-> p, len |-> SeqLen(pack'[p])] : p \in pex'}
    /\ S2(o.locks) = locked'
    /\ o.tmp = tmpleft'

(* calls refused because of a stale lock file, and the environment steps that put / remove one *)
LockStep(ln) ==
    LET o == ln.op
        h == o.h
        ks == o.keys
    IN CASE o.name = "tmppack"   -> IF tmpleft THEN /\ last' = Rec("tmppack", "-", <<>>, {}, "") /\ UNCHANGED <<core, locked, tmpleft>> ELSE TmpLeft
         [] o.name = "rmtmp"     -> IF tmpleft THEN TmpRemove ELSE /\ last' = Rec("rmtmp", "-", <<>>, {}, "") /\ UNCHANGED <<core, locked, tmpleft>>
         [] o.name = "repack"    -> RepackRefused(h, o.mode)
         [] o.name = "stalelock" -> IF locked # {} THEN /\ last' = Rec("stalelock", "-", <<>>, {}, "") /\ UNCHANGED <<core, locked>> ELSE LockStale
         [] o.name = "unlock"    -> IF locked = {} THEN /\ last' = Rec("unlock", "-", <<>>, {}, "") /\ UNCHANGED <<core, locked>> ELSE Unlock
         [] o.name = "addpack"   -> AddToPackRefused(h, ks, o.z, o.noholes, o.twice)
         [] o.name = "pack"      -> PackRefused(h, o.mode, o.perpack)
         [] o.name = "import"    -> ImportRefused(h, S2(ks), o.z, o.samehash, S2(o.src))
         [] OTHER                -> FALSE
WritesPacks(ln) == \/ ln.op.name = "addpack" /\ ln.op.keys # <<>>
                   \/ ln.op.name = "pack" /\ (LoosePresent \ KeysOf(V(ln.op.h))) # {}
                   \/ ln.op.name = "import" /\ ImportFresh(ln.op.h, S2(ln.op.keys), ln.op.samehash, S2(ln.op.src)) # {}

PlainStep(ln) ==
    LET o == ln.op
        h == o.h
        ks == o.keys
        S == S2(ks)
    IN CASE o.name = "add"       -> AddLoose(h, ks[1])
         [] o.name = "readd"     -> AddLoose(h, ks[1])     \* Damage(k) . AddLoose(h, k): the damaged copy is replaced
         [] o.name = "addpack"   -> AddToPack(h, ks, o.z, o.noholes, o.twice)
         [] o.name = "pack"      -> PackAllLoose(h, o.mode, o.perpack, NewRowKeys(ln.obs))
         [] o.name = "clean"     -> IF o.raised = "" THEN Clean(h)
                                    ELSE /\ last' = Rec("clean", h, <<>>, {}, o.raised)     \* refused before touching anything
                                         /\ (IF o.vacuum THEN Unpin(h) ELSE KeepSession)
                                         /\ UNCHANGED <<loose, pack, pex, idx, cur, map, repacked>>
         [] o.name = "stray"     -> /\ last' = Rec("stray", h, <<>>, {}, "") /\ UNCHANGED core
         [] o.name = "repack"    -> Repack(h, o.mode)
         [] o.name = "delete"    -> Delete(h, S)
         [] o.name = "loosen"    -> Loosen(h, ks[1])
         [] o.name = "import"    -> LET src == S2(o.src)
                                        avail == S \cap src
                                        fresh == IF o.samehash THEN avail \ (LoosePresent \cup KeysOf(V(h))) ELSE avail
                                    IN \E ord \in ImportOrders(ln.obs, fresh) : Import(h, S, o.z, o.samehash, ord, src)
         [] o.name = "reopen"    -> Reopen(h)
         [] o.name = "initagain" -> InitAgain(h)
         [] o.name = "has"       -> Has(h, S)
         [] o.name = "get"       -> Has(h, S)
         [] o.name = "meta"      -> Has(h, S)
         [] o.name = "list"      -> List(h)
         [] o.name = "listpart"  -> ListPart(h)
         [] OTHER                -> FALSE

TmpOps == {"tmppack", "rmtmp"}
Step(ln) == IF \/ ln.op.name \in {"stalelock", "unlock"} \cup TmpOps
               \/ (ln.op.raised = "FileExistsError" /\ ln.op.name # "initagain")
               \/ (ln.op.raised = "AssertionError" /\ ln.op.name = "repack")
               THEN /\ LockStep(ln)
                    /\ IF ln.op.name \in TmpOps \cup {"repack"} THEN TRUE ELSE UNCHANGED tmpleft
               ELSE /\ PlainStep(ln) /\ NL
                    /\ WritesPacks(ln) => ~Blocked(ln.op.h)
                    /\ (ln.op.name = "repack") => (~tmpleft \/ pex = {})

CInit == /\ tid \in 1..NTraces
         /\ l = 1
         /\ Init

CNext == /\ l < Len(Lines)
         /\ Step(Lines[l + 1])
         /\ Lines[l + 1].op.raised = last'.err
         /\ ObsMatches(Lines[l + 1].obs)
         /\ l' = l + 1
         /\ tid' = tid

CSpec == CInit /\ [][CNext]_cvars

(* a trace is accepted when its last line has been consumed; the harness compares, per trace, the
   largest l reached (printed below) with the number of lines *)
NotStuck == (l < Len(Lines)) => ENABLED CNext
=============================================================================
