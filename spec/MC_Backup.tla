------------------------------ MODULE MC_Backup ------------------------------
EXTENDS DosBackup
MCKeys == {"k1", "k2", "k3", "k4"}
MCLoose0 == {"k1"}
MCPacked0 == <<"k4">>
MCAdds == {"k2", "k4"}
MCDirect == {"k3"}
MCPrevIdx == {}
(* incremental: k4 was in the previous backup; k5 was added, packed and cleaned since *)
MCPacked0Inc == <<"k4", "k5">>
MCPrevIdxInc == {[k |-> "k4", pos |-> 1]}
MCKeysInc == MCKeys \cup {"k5"}
OrderCode == <<"loose", "dump", "idx", "packs", "rest">>
OrderIndexFirst == <<"dump", "idx", "loose", "packs", "rest">>
OrderPacksFirst == <<"loose", "packs", "dump", "idx", "rest">>
==============================================================================
