------------------------------ MODULE MC_Backup ------------------------------
EXTENDS DosBackup
MCKeys == {"k1", "k2", "k3", "k4"}
MCLoose0 == {"k1"}
MCPacked0 == <<"k4">>
MCAdds == {"k2", "k4"}
MCDirect == {"k3"}
OrderCode == <<"loose", "dump", "idx", "packs", "rest">>
OrderIndexFirst == <<"dump", "idx", "loose", "packs", "rest">>
OrderPacksFirst == <<"loose", "packs", "dump", "idx", "rest">>
==============================================================================
