------------------------------- MODULE MC_Conc -------------------------------
EXTENDS Dos
MCKeys == {"k1", "k2", "k3"}
MCInitial == {"k1"}
MCPacked == <<"k3">>
MCAdds == <<"k2", "k1">>          \* a new content, then a duplicate of an existing one
MCWants == {"k1", "k2", "k3"}
==============================================================================
