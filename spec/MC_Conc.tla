------------------------------- MODULE MC_Conc -------------------------------
EXTENDS Dos
MCKeys == {"k1", "k2", "k3", "k4"}
MCInitial == {"k1", "k3"}
MCPacked == <<"k4">>
MCAdds == <<"k2", "k1">>          \* a new content, then a duplicate of an existing one
MCWants == {"k1", "k2", "k4"}
==============================================================================
