---- MODULE MC_Multi_TTrace_1790059294 ----
EXTENDS Sequences, TLCExt, Toolbox, Naturals, TLC, MC_Multi

_expression ==
    LET MC_Multi_TEExpression == INSTANCE MC_Multi_TEExpression
    IN MC_Multi_TEExpression!expression
----

_trace ==
    LET MC_Multi_TETrace == INSTANCE MC_Multi_TETrace
    IN MC_Multi_TETrace!trace
----

_inv ==
    ~(
        TLCGet("level") = Len(_TETrace)
        /\
        cur = ([h1 |-> 0, h2 |-> 0, hp |-> 0])
        /\
        pinned = ([h1 |-> FALSE, h2 |-> FALSE, hp |-> FALSE])
        /\
        pex = ({})
        /\
        last = ([h |-> "h1", mode |-> "", pp |-> FALSE, S |-> {}, z |-> FALSE, op |-> "add", res |-> {"k1"}, err |-> "", keys |-> <<"k1">>, nh |-> FALSE, tw |-> FALSE, sh |-> FALSE])
        /\
        repacked = (FALSE)
        /\
        loose = ([k1 |-> "good", k2 |-> "absent"])
        /\
        locked = ()
        /\
        idx = ({})
        /\
        map = ({"k1"})
        /\
        pack = ((0 :> <<>> @@ 1 :> <<>> @@ 2 :> <<>> @@ 3 :> <<>> @@ 4 :> <<>> @@ 5 :> <<>>))
        /\
        snap = ([h1 |-> {}, h2 |-> {}, hp |-> {}])
    )
----

_init ==
    /\ last = _TETrace[1].last
    /\ locked = _TETrace[1].locked
    /\ pinned = _TETrace[1].pinned
    /\ repacked = _TETrace[1].repacked
    /\ pex = _TETrace[1].pex
    /\ snap = _TETrace[1].snap
    /\ map = _TETrace[1].map
    /\ loose = _TETrace[1].loose
    /\ idx = _TETrace[1].idx
    /\ pack = _TETrace[1].pack
    /\ cur = _TETrace[1].cur
----

_next ==
    /\ \E i,j \in DOMAIN _TETrace:
        /\ \/ /\ j = i + 1
              /\ i = TLCGet("level")
        /\ last  = _TETrace[i].last
        /\ last' = _TETrace[j].last
        /\ locked  = _TETrace[i].locked
        /\ locked' = _TETrace[j].locked
        /\ pinned  = _TETrace[i].pinned
        /\ pinned' = _TETrace[j].pinned
        /\ repacked  = _TETrace[i].repacked
        /\ repacked' = _TETrace[j].repacked
        /\ pex  = _TETrace[i].pex
        /\ pex' = _TETrace[j].pex
        /\ snap  = _TETrace[i].snap
        /\ snap' = _TETrace[j].snap
        /\ map  = _TETrace[i].map
        /\ map' = _TETrace[j].map
        /\ loose  = _TETrace[i].loose
        /\ loose' = _TETrace[j].loose
        /\ idx  = _TETrace[i].idx
        /\ idx' = _TETrace[j].idx
        /\ pack  = _TETrace[i].pack
        /\ pack' = _TETrace[j].pack
        /\ cur  = _TETrace[i].cur
        /\ cur' = _TETrace[j].cur

\* Uncomment the ASSUME below to write the states of the error trace
\* to the given file in Json format. Note that you can pass any tuple
\* to `JsonSerialize`. For example, a sub-sequence of _TETrace.
    \* ASSUME
    \*     LET J == INSTANCE Json
    \*         IN J!JsonSerialize("MC_Multi_TTrace_1790059294.json", _TETrace)

=============================================================================

 Note that you can extract this module `MC_Multi_TEExpression`
  to a dedicated file to reuse `expression` (the module in the 
  dedicated `MC_Multi_TEExpression.tla` file takes precedence 
  over the module `MC_Multi_TEExpression` below).

---- MODULE MC_Multi_TEExpression ----
EXTENDS Sequences, TLCExt, Toolbox, Naturals, TLC, MC_Multi

expression == 
    [
        \* To hide variables of the `MC_Multi` spec from the error trace,
        \* remove the variables below.  The trace will be written in the order
        \* of the fields of this record.
        last |-> last
        ,locked |-> locked
        ,pinned |-> pinned
        ,repacked |-> repacked
        ,pex |-> pex
        ,snap |-> snap
        ,map |-> map
        ,loose |-> loose
        ,idx |-> idx
        ,pack |-> pack
        ,cur |-> cur
        
        \* Put additional constant-, state-, and action-level expressions here:
        \* ,_stateNumber |-> _TEPosition
        \* ,_lastUnchanged |-> last = last'
        
        \* Format the `last` variable as Json value.
        \* ,_lastJson |->
        \*     LET J == INSTANCE Json
        \*     IN J!ToJson(last)
        
        \* Lastly, you may build expressions over arbitrary sets of states by
        \* leveraging the _TETrace operator.  For example, this is how to
        \* count the number of times a spec variable changed up to the current
        \* state in the trace.
        \* ,_lastModCount |->
        \*     LET F[s \in DOMAIN _TETrace] ==
        \*         IF s = 1 THEN 0
        \*         ELSE IF _TETrace[s].last # _TETrace[s-1].last
        \*             THEN 1 + F[s-1] ELSE F[s-1]
        \*     IN F[_TEPosition - 1]
    ]

=============================================================================



Parsing and semantic processing can take forever if the trace below is long.
 In this case, it is advised to uncomment the module below to deserialize the
 trace from a generated binary file.

\*
\*---- MODULE MC_Multi_TETrace ----
\*EXTENDS IOUtils, TLC, MC_Multi
\*
\*trace == IODeserialize("MC_Multi_TTrace_1790059294.bin", TRUE)
\*
\*=============================================================================
\*

---- MODULE MC_Multi_TETrace ----
EXTENDS TLC, MC_Multi

trace == 
    <<
    ([cur |-> [h1 |-> 0, h2 |-> 0, hp |-> 0],pinned |-> [h1 |-> FALSE, h2 |-> FALSE, hp |-> FALSE],pex |-> {},last |-> [h |-> "-", mode |-> "", pp |-> FALSE, S |-> {}, z |-> FALSE, op |-> "init", res |-> {}, err |-> "", keys |-> <<>>, nh |-> FALSE, tw |-> FALSE, sh |-> FALSE],repacked |-> FALSE,loose |-> [k1 |-> "absent", k2 |-> "absent"],locked |-> {},idx |-> {},map |-> {},pack |-> (0 :> <<>> @@ 1 :> <<>> @@ 2 :> <<>> @@ 3 :> <<>> @@ 4 :> <<>> @@ 5 :> <<>>),snap |-> [h1 |-> {}, h2 |-> {}, hp |-> {}]]),
    ([cur |-> [h1 |-> 0, h2 |-> 0, hp |-> 0],pinned |-> [h1 |-> FALSE, h2 |-> FALSE, hp |-> FALSE],pex |-> {},last |-> [h |-> "h1", mode |-> "", pp |-> FALSE, S |-> {}, z |-> FALSE, op |-> "add", res |-> {"k1"}, err |-> "", keys |-> <<"k1">>, nh |-> FALSE, tw |-> FALSE, sh |-> FALSE],repacked |-> FALSE,loose |-> [k1 |-> "good", k2 |-> "absent"],locked |-> ,idx |-> {},map |-> {"k1"},pack |-> (0 :> <<>> @@ 1 :> <<>> @@ 2 :> <<>> @@ 3 :> <<>> @@ 4 :> <<>> @@ 5 :> <<>>),snap |-> [h1 |-> {}, h2 |-> {}, hp |-> {}]])
    >>
----


=============================================================================

---- CONFIG MC_Multi_TTrace_1790059294 ----
CONSTANTS
    Keys <- MCKeys
    Size <- MCSize
    ZLen <- MCZLen
    AutoZ <- MCAutoZ
    PackTarget = 2
    MaxPack = 4
    Handles = { "h1" , "h2" , "hp" }
    AppendIgnoresSeek = FALSE
    ListUsesPinnedSnapshot = FALSE
    MaxDepth = 7

INVARIANT
    _inv

CHECK_DEADLOCK
    \* CHECK_DEADLOCK off because of PROPERTY or INVARIANT above.
    FALSE

INIT
    _init

NEXT
    _next

CONSTANT
    _TETrace <- _trace

ALIAS
    _expression
=============================================================================
\* Generated on Tue Sep 22 06:41:36 UTC 2026