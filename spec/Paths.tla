-------------------------------- MODULE Paths --------------------------------
(***************************************************************************)
(* C01: abstract cover of "store by any write path, read back by any read  *)
(* path".  The specification enumerates the combinations and states the    *)
(* law at the level of content identities: the key handed back is the      *)
(* identity of exactly the bytes given, reading that key back returns that *)
(* content and reports its length.  TLA+ does not reason about bytes,      *)
(* digests or deflate: every transition of this (small) graph is replayed  *)
(* by the harness with concrete byte strings of every size class under     *)
(* sampled container configurations, and hashlib / byte equality decide.   *)
(***************************************************************************)
EXTENDS Integers, TLC

CONSTANTS WritePaths, ReadPaths, SizeClasses, LooseOnly  \* LooseOnly: write paths that cannot compress

VARIABLES phase, wpath, z, size, rpath, stored, got
vars == <<phase, wpath, z, size, rpath, stored, got>>

Init == /\ phase = "empty" /\ wpath = "" /\ z = FALSE /\ size = 0 /\ rpath = ""
        /\ stored = "none" /\ got = "none"

(* content identity = its size class here (one content per class and run) *)
Store(w, c, s) ==
    /\ phase = "empty"
    /\ (w \in LooseOnly => ~c)
    /\ phase' = "stored" /\ wpath' = w /\ z' = c /\ size' = s
    /\ stored' = s                      \* the key is the identity of exactly these bytes
    /\ UNCHANGED <<rpath, got>>

Read(r) ==
    /\ phase = "stored"
    /\ phase' = "read" /\ rpath' = r
    /\ got' = stored                    \* the bytes (and their length) come back
    /\ UNCHANGED <<wpath, z, size, stored>>

Next == \/ \E w \in WritePaths, c \in BOOLEAN, s \in SizeClasses : Store(w, c, s)
        \/ \E r \in ReadPaths : Read(r)
Spec == Init /\ [][Next]_vars

RoundTrip == phase = "read" => got = size
KeyIsContent == phase # "empty" => stored = size
=============================================================================
