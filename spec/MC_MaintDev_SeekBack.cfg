SPECIFICATION Spec
CONSTANTS
  Keys <- MCKeys
  Cases <- MCCases
  AllowPower = TRUE
  RepackCommitBeforeFsync = FALSE
  RepackUnlinkOldFirst = FALSE
  SeekBackWithoutTruncate = TRUE
  RepackNoIntermediateCommit = FALSE
  ImportFsyncOnlyLast = FALSE
  DeleteIndexFirst = FALSE
INVARIANT Recoverable
INVARIANT KeysUnique
INVARIANT DurableVisible
INVARIANT Completed
