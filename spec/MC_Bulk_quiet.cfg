SPECIFICATION Spec
CONSTANTS
  Keys <- MCKeys
  Snap <- MCIdx
  Idx <- MCIdx
  Loose <- MCLoose
  Requests <- MCRequests
  InMax = 2
  MaxChunkIterate = 3
  SkipIfMissing = FALSE
  IterateRequestList = FALSE
  RetryKeepsDuplicates = FALSE
  NoRetry = FALSE
INVARIANT EachKeyOnce
INVARIANT Pointwise
INVARIANT PhaseOrder
