SPECIFICATION Spec
CONSTANTS
  Keys <- MCKeysInc
  Loose0 <- MCLoose0
  Packed0 <- MCPacked0Inc
  AddKeys <- MCAdds
  DirectKeys <- MCDirect
  PackRounds = 1
  CleanRounds = 1
  Order <- OrderCode
  PrevIdx <- MCPrevIdxInc
  Incremental = TRUE
  IdxByChecksum = FALSE
  RestCopiesLiveIndex = FALSE
INVARIANT BackupValid
INVARIANT SourceOK
