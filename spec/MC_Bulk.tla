------------------------------- MODULE MC_Bulk -------------------------------
EXTENDS Bulk
MCKeys == {"a", "b", "c", "d"}
(* a: packed in the snapshot; b: packed since the snapshot and no longer loose; c: loose; d: missing *)
MCSnap == {"a"}
MCIdx == {"a", "b"}
MCLoose == {"c"}
Seqs(n) == UNION {[1..m -> MCKeys] : m \in 0..n}
MCRequests == Seqs(4)
==============================================================================
