SPECIFICATION MultiSpec
CONSTANTS
  Keys <- MCKeys
  Size <- MCSize
  ZLen <- MCZLen
  AutoZ <- MCAutoZ
  PackTarget = 2
  MaxPack = 4
  Handles = {"h1", "h2", "hp"}
  AppendIgnoresSeek = FALSE
  ListUsesPinnedSnapshot = FALSE
  MaxDepth = 7


INVARIANT TypeOK
INVARIANT Refines
INVARIANT SnapshotsAreOld
INVARIANT Inv_IndexOK
