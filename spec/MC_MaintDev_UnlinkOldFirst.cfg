SPECIFICATION Spec
CONSTANTS
  Keys <- MCKeys
  Cases <- MCCases
  AllowPower = TRUE
  RepackCommitBeforeFsync = FALSE
  RepackUnlinkOldFirst = TRUE
  SeekBackWithoutTruncate = FALSE
  RepackNoIntermediateCommit = FALSE
  ImportFsyncOnlyLast = FALSE
  DeleteIndexFirst = FALSE
INVARIANT Recoverable
INVARIANT KeysUnique
INVARIANT DurableVisible
INVARIANT Completed
