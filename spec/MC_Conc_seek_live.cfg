SPECIFICATION FairSpec
CONSTANTS
  Keys <- MCKeys
  Initial <- MCInitial
  InitialPacked <- MCPacked
  WriterAdds <- MCAdds
  ReaderWants <- MCWants
  MaxRetries = 3
  SeekKey = "k4"
  ReaderPinned = FALSE
  PerPack = TRUE
  AllowCrash = FALSE
  AllowPower = FALSE
  AllowFault = FALSE
  UnlinkBeforeCommit = FALSE
  CommitBeforeFlush = FALSE
  NoFallback = FALSE
  SkipPackFsync = FALSE
  RenameBeforeFsync = FALSE
INVARIANT TypeOK
INVARIANT ReadCorrect
INVARIANT Recoverable
INVARIANT DurableVisible
INVARIANT AfterPowerLoss
INVARIANT WriteAcked
INVARIANT SeekReadCorrect
PROPERTY EveryCallReturns
