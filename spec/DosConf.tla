------------------------------- MODULE DosConf -------------------------------
(***************************************************************************)
(* Conformance of scheduled concurrent executions to the step-level model  *)
(* Dos (code -> spec).  One trace per execution of {writer, reader,        *)
(* packer} under a recorded schedule; the harness translates the observed  *)
(* shared-state calls of each actor into lines                             *)
(*   W: exists(k, found) | hash | rename(k) | ack(k)                       *)
(*   R: select | loose(k, found) | refresh | ret(res)                      *)
(*   P: list | select(todo) | lock | copy(k) | insert | flush | fsync |    *)
(*      unlock | commit | unlink(k) | packed | cselect(S) | cunlink(k) |   *)
(*      cleaned                                                            *)
(* in global order.  Every line must be the corresponding Dos action,      *)
(* enabled in the current model state and agreeing with the observed       *)
(* outcome (file found or not, keys packed, read results); steps the       *)
(* interposition layer does not see (sandbox write and fsync, reading from *)
(* the pack, end-of-loop bookkeeping) are silent actions of the same       *)
(* actor.  What the code leaves open - the order in which the set of loose *)
(* keys is packed, and a directory listing that is not atomic - is taken   *)
(* from the observation (subset of what the model's atomic listing sees).  *)
(* A trace that cannot be consumed to its end is MODEL-DRIFT.              *)
(***************************************************************************)
EXTENDS Dos, Json, IOUtils

All == ndJsonDeserialize(IOEnv.TRACE_FILE)
NTraces == Len(All)
VARIABLES tid, l
cvars == <<vars, tid, l>>
Lines == All[tid].lines
model == <<loose, looseSynced, sbx, pk, pkSynced, pbuf, idx, pend, snapP, pinP, snapR, pinR, lockf, wpc, wi, wexists,
           rpc, rhits, rmiss, rres, spc, stries, sres, ppc, plist, ptodo, pdone, pclean, acked, rstarted, dead, faults, power>>
S2(s) == {s[i] : i \in DOMAIN s}
Ln == Lines[l + 1]

CInit == tid \in 1..NTraces /\ l = 0 /\ Init

(* the packer's SELECT with the observed packing order *)
P_SelectObs(order) ==
    /\ ppc = "p_select"
    /\ S2(order) \subseteq plist \ KeysOf(VP)
    /\ snapP' = VP /\ pinP' = TRUE
    /\ ptodo' = order
    /\ ppc' = IF order = <<>> THEN "c_list" ELSE "p_lock"
    /\ UNCHANGED <<loose, looseSynced, pk, pkSynced, pbuf, idx, pend, lockf, plist, pdone, pclean>> /\ PUnch
C_ListObs(S) ==
    /\ ppc = "c_list"
    /\ S \subseteq Present \cap KeysOf(idx)
    /\ pclean' = S
    /\ snapP' = idx /\ pinP' = TRUE
    /\ ppc' = "c_unlink"
    /\ UNCHANGED <<loose, looseSynced, pk, pkSynced, pbuf, idx, pend, lockf, plist, ptodo, pdone>> /\ PUnch

ResOf(k) == IF rres[k] = "OK" THEN "OK" ELSE IF rres[k] = "MISSING" THEN "NotExistent" ELSE rres[k]

Visible ==
    LET e == Ln IN
    CASE e.a = "W" /\ e.t = "exists"  -> W_Exists /\ wexists' = e.found /\ WK = e.k /\ "W" \notin dead
      [] e.a = "W" /\ e.t = "hash"    -> W_HashExisting /\ "W" \notin dead
      [] e.a = "W" /\ e.t = "rename"  -> W_Rename /\ WK = e.k /\ "W" \notin dead
      [] e.a = "W" /\ e.t = "ack"     -> W_Cleanup /\ WK = e.k /\ "W" \notin dead
      [] e.a = "R" /\ e.t = "select"  -> R_Select
      [] e.a = "R" /\ e.t = "loose"   -> /\ rpc = "r_loose" /\ e.k \in (ReaderWants \ rhits) /\ (loose[e.k] = "good") = e.found
                                         /\ IF e.found THEN rres' = [rres EXCEPT ![e.k] = "OK"] /\ UNCHANGED rmiss
                                                       ELSE rmiss' = rmiss \cup {e.k} /\ UNCHANGED rres
                                         /\ UNCHANGED <<rpc, rhits, snapR, pinR, rstarted>> /\ RUnch
      [] e.a = "R" /\ e.t = "refresh" -> R_Refresh
      [] e.a = "R" /\ e.t = "ret"     -> /\ rpc = "r_done" /\ \A x \in S2(e.res) : ResOf(x.k) = x.cls
                                         /\ UNCHANGED model
      [] e.a = "S" /\ e.t = "exists"  -> S_Exists /\ (loose[SeekKey] = "good") = e.found
      [] e.a = "S" /\ e.t = "dest"    -> S_DestExists /\ (loose[SeekKey] = "good") = e.found
      [] e.a = "S" /\ e.t = "rename"  -> S_Rename
      [] e.a = "S" /\ e.t = "open"    -> S_Open /\ (loose[SeekKey] = "good") = e.found
      [] e.a = "S" /\ e.t = "ret"     -> spc = "s_done" /\ sres = e.r /\ UNCHANGED model
      [] e.a = "P" /\ e.t = "list"    -> P_List
      [] e.a = "P" /\ e.t = "select"  -> P_SelectObs(e.todo)
      [] e.a = "P" /\ e.t = "lock"    -> P_Lock
      [] e.a = "P" /\ e.t = "copy"    -> P_Copy /\ ptodo[Len(pbuf) + 1] = e.k
      [] e.a = "P" /\ e.t = "insert"  -> P_Insert
      [] e.a = "P" /\ e.t = "flush"   -> P_Flush
      [] e.a = "P" /\ e.t = "fsync"   -> P_Fsync
      [] e.a = "P" /\ e.t = "unlock"  -> P_Unlock
      [] e.a = "P" /\ e.t = "commit"  -> P_Commit
      [] e.a = "P" /\ e.t = "unlink"  -> /\ ppc = "p_unlink" /\ e.k \in Range(ptodo) \ pdone
                                         /\ loose' = [loose EXCEPT ![e.k] = "absent"] /\ pdone' = pdone \cup {e.k}
                                         /\ UNCHANGED <<looseSynced, pk, pkSynced, pbuf, idx, pend, snapP, pinP, lockf, ppc, plist, ptodo, pclean>>
                                         /\ PUnch
      [] e.a = "P" /\ e.t = "packed"  -> IF ppc = "p_unlink" THEN P_UnlinkDone ELSE (ppc = "c_list" /\ UNCHANGED model)
      [] e.a = "P" /\ e.t = "cselect" -> C_ListObs(S2(e.S))
      [] e.a = "P" /\ e.t = "cunlink" -> /\ ppc = "c_unlink" /\ e.k \in pclean
                                         /\ loose' = [loose EXCEPT ![e.k] = "absent"] /\ pclean' = pclean \ {e.k}
                                         /\ UNCHANGED <<looseSynced, pk, pkSynced, pbuf, idx, pend, snapP, pinP, lockf, ppc, plist, ptodo, pdone>>
                                         /\ PUnch
      [] e.a = "P" /\ e.t = "cleaned" -> C_Done
      [] OTHER -> FALSE

Consume == /\ l < Len(Lines)
           /\ Visible
           /\ l' = l + 1 /\ tid' = tid /\ lastActor' = Ln.a

(* steps of an actor that the interposition layer does not report; only the actor of the next line may take them *)
Silent == /\ l < Len(Lines)
          /\ \/ (Ln.a = "W" /\ "W" \notin dead /\ (W_Write \/ W_Fsync))
             \/ (Ln.a = "R" /\ (R_ReadPacks \/ R_LooseDone))
             \/ (Ln.a = "S" /\ S_Write)
          /\ UNCHANGED <<tid, l>> /\ lastActor' = lastActor

CNext == Consume \/ Silent
CSpec == CInit /\ [][CNext]_cvars

(* acceptance: the highest line reached per trace is recorded in a TLC register; the harness compares it with the length *)
Track == TLCSet(tid, IF TLCGet(tid) < l THEN l ELSE TLCGet(tid))
ASSUME \A t \in 1..NTraces : TLCSet(t, 0)
Report == \A t \in 1..NTraces : PrintT(<<"REACHED", t, TLCGet(t), Len(All[t].lines)>>)
==============================================================================
