------------------------------ MODULE DosMaint ------------------------------
(***************************************************************************)
(* Step-level model of the *maintenance* operations, which run alone:      *)
(* direct-to-pack writes (with the no_holes seek-back), pack_all_loose,    *)
(* clean_storage, delete_objects, repack and a loose add, each as the      *)
(* sequence of primitive file-system / SQL steps the code issues           *)
(* (container.py:1258-1486, 1548-1837, 1945-2055, 2460-2539, 2568-2765;    *)
(* utils.py:343-495), executed by one actor over the L0 physics:           *)
(*   files are inodes (content = sequence of extents, a prefix of which is *)
(*   durable), pack names are bound to inodes (hard links share the inode),*)
(*   writes go to a user-space buffer until flushed, SQL changes are       *)
(*   staged until COMMIT.                                                  *)
(* The environment may stop the actor after any step (process kill or a    *)
(* failing call: buffer and staged transaction vanish) or cut the power    *)
(* (in addition every file keeps only its durable prefix).  The invariants *)
(* are evaluated in every state: "if everything stopped here, what would a *)
(* new handle find?" (C05, C06, C17).                                      *)
(*                                                                         *)
(* An operation is compiled to a *program* (a sequence of instructions)    *)
(* from its arguments and the pre-state; the same compilation is used by   *)
(* the conformance check, which compares it with the sequence of calls     *)
(* recorded from the real library (MaintConf.tla).                         *)
(* Deviation switches: RepackCommitBeforeFsync, RepackUnlinkOldFirst,      *)
(* SeekBackWithoutTruncate, DeleteIndexFirst, RepackNoIntermediateCommit   *)
(* (the switch to the temporary pack is only staged), ImportFsyncOnlyLast  *)
(* (only the last batch of an import is fsynced).                          *)
(***************************************************************************)
EXTENDS Integers, Sequences, FiniteSets, TLC

CONSTANTS Keys, Cases,
          RepackCommitBeforeFsync, RepackUnlinkOldFirst, SeekBackWithoutTruncate, DeleteIndexFirst,
          RepackNoIntermediateCommit, ImportFsyncOnlyLast,
          AllowPower

Tmp == 0 - 1                 \* the temporary pack id of repack
MaxPack == 2
PackIds == {Tmp} \cup 0..MaxPack
MaxIno == 7

VARIABLES ino,      \* [1..MaxIno -> [content : Seq, synced : Nat]]
          nxt,      \* next free inode
          names,    \* [PackIds -> 0..MaxIno]   0 = no such file
          loose,    \* [Keys -> {"absent", "good", "unsynced", "torn"}]
          idx,      \* committed rows [k, p, pos]
          staged,   \* [on, v]  the value the index takes at COMMIT
          ubuf,     \* user-space buffer of the open file
          cur,      \* inode of the open file (0 = none)
          sbx,      \* sandbox file of a loose add: "none" | "written" | "synced"
          prog, pci, stopped, power,
          must      \* ghost: contents that must survive (stored before, not targeted by a deletion)

vars == <<ino, nxt, names, loose, idx, staged, ubuf, cur, sbx, prog, pci, stopped, power, must>>

Range(s) == {s[i] : i \in DOMAIN s}
KeysOf(R) == {r.k : r \in R}
Empty == [content |-> <<>>, synced |-> 0]
I(op, a, b) == [op |-> op, a |-> a, b |-> b, rows |-> {}]
IS(rows) == [op |-> "stage", a |-> 0, b |-> 0, rows |-> rows]

-----------------------------------------------------------------------------
(* Compilation of the operations into programs                              *)

RowsOfPack(R, p) == {r \in R : r.p = p}
RECURSIVE SortByPos(_)
SortByPos(R) == IF R = {} THEN <<>>
                ELSE LET m == CHOOSE r \in R : \A q \in R : r.pos <= q.pos IN <<m>> \o SortByPos(R \ {m})

(* repack_pack(p) on index R: <<program, index afterwards>> *)
RepackPack(p, R, exists) ==
    LET rs == SortByPos(RowsOfPack(R, p))
        toTmp == {[k |-> rs[i].k, p |-> Tmp, pos |-> i] : i \in DOMAIN rs}
        back == {[k |-> rs[i].k, p |-> p, pos |-> i] : i \in DOMAIN rs}
        rest == R \ RowsOfPack(R, p)
        copy == [i \in DOMAIN rs |-> I("buf", rs[i].k, 0)]
        sync == IF RepackCommitBeforeFsync THEN <<I("flush", 0, 0)>> ELSE <<I("flush", 0, 0), I("fsync", 0, 0)>>
        swap == IF RepackUnlinkOldFirst
                   THEN <<I("unlinkpack", p, 0), IS(rest \cup toTmp), I("commit", 0, 0)>>
                   ELSE IF RepackNoIntermediateCommit THEN <<IS(rest \cup toTmp), I("unlinkpack", p, 0)>>
                   ELSE <<IS(rest \cup toTmp), I("commit", 0, 0), I("unlinkpack", p, 0)>>
    IN IF rs = <<>>
          THEN <<(IF exists THEN <<I("unlinkpack", p, 0)>> ELSE <<>>), R>>
          ELSE << <<I("create", Tmp, 0)>> \o copy \o sync \o <<I("closefile", 0, 0)>> \o swap
                  \o <<I("link", Tmp, p), IS(rest \cup back), I("commit", 0, 0), I("unlinkpack", Tmp, 0)>>,
                  rest \cup back >>

RepackProg(pre) ==
    LET a == RepackPack(0, pre.idx, pre.packs[0] # <<>> \/ 0 \in pre.exists)
        b == RepackPack(1, a[2], 1 \in pre.exists)
    IN a[1] \o b[1]

DeleteProg(pre, ks) ==      \* ks: the requested keys in request order
    LET S == Range(ks)
        present == SelectSeq(ks, LAMBDA k : pre.loose[k] = "good")
        unl == [i \in DOMAIN present |-> I("unlinkloose", present[i], 0)]
        rows == <<IS({r \in pre.idx : r.k \notin S}), I("commit", 0, 0)>>
    IN IF DeleteIndexFirst THEN rows \o unl ELSE unl \o rows

(* ---- writing to packs: add_objects_to_pack, pack_all_loose, import_objects ---- *)
(* A case carries sz (size of each content, in units), target (pack_size_target, same units) and budget (import's
   target_memory_bytes).  Pack choice (container.py:246-282): the first pack that does not exist or whose size, taken
   from tell() before every object, is below the target.  Packs 0..MaxPack are modelled: the last one is never full. *)
RECURSIVE SumSz(_, _)
SumSz(s, sz) == IF s = <<>> THEN 0 ELSE sz[Head(s)] + SumSz(Tail(s), sz)
RECURSIVE FirstFreeFrom(_, _, _, _)
FirstFreeFrom(p, bytes, exists, T) == IF p = MaxPack \/ p \notin exists \/ bytes[p] < T THEN p ELSE FirstFreeFrom(p + 1, bytes, exists, T)
FirstFree(bytes, exists, T) == FirstFreeFrom(0, bytes, exists, T)

RECURSIVE OrIgnore(_, _)
OrIgnore(R, new) == IF new = {} THEN R
                    ELSE LET r == CHOOSE x \in new : \A y \in new : <<x.p, x.pos>> = <<y.p, y.pos>> \/ x.p < y.p \/ (x.p = y.p /\ x.pos < y.pos)
                         IN OrIgnore(IF r.k \in KeysOf(R) THEN R ELSE R \cup {r}, new \ {r})

(* the objects written while one pack is open (container.py:1679-1795): [ins, rows, rest, known, bytes, done] *)
RECURSIVE Seg(_, _, _, _, _, _, _, _)
Seg(ks, noholes, known, pos, bytes, p, T, sz) ==
    IF ks = <<>> \/ (p < MaxPack /\ bytes >= T)
       THEN [ins |-> <<>>, rows |-> {}, rest |-> ks, known |-> known, bytes |-> bytes, done |-> <<>>]
    ELSE LET k == Head(ks) IN
         IF noholes /\ k \in known
            THEN LET r == Seg(Tail(ks), noholes, known, pos, bytes, p, T, sz)
                 IN [r EXCEPT !.ins = <<I("buf", k, 0), I("flush", 0, 0)>>
                                       \o (IF SeekBackWithoutTruncate THEN <<I("seekback", 0, 0)>> ELSE <<I("trunc1", 0, 0)>>) \o @]
            ELSE LET r == Seg(Tail(ks), noholes, IF noholes THEN known \cup {k} ELSE known, pos + 1, bytes + sz[k], p, T, sz)
                 IN [r EXCEPT !.ins = <<I("buf", k, 0)>> \o @, !.rows = {[k |-> k, p |-> p, pos |-> pos]} \cup @, !.done = <<k>> \o @]

(* one pack after the other until everything is written: per pack  open, objects, [final truncate], INSERT, flush,
   fsync, close, [COMMIT], [unlink what this pack received].  st = [rows, bytes, lens, exists, known] is threaded
   through (an import calls this once per batch with the same transaction). *)
RECURSIVE PackSegs(_, _, _, _, _, _, _)
PackSegs(ks, noholes, st, commitEach, unlinkEach, T, sz) ==
    IF ks = <<>> THEN [ins |-> <<>>, st |-> st]
    ELSE LET p == FirstFree(st.bytes, st.exists, T)
             s == Seg(ks, noholes, st.known, st.lens[p] + 1, st.bytes[p], p, T, sz)
             nrows == OrIgnore(st.rows, s.rows)
             r == PackSegs(s.rest, noholes,
                           [rows |-> nrows, bytes |-> [st.bytes EXCEPT ![p] = s.bytes],
                            lens |-> [st.lens EXCEPT ![p] = @ + Cardinality(s.rows)], exists |-> st.exists \cup {p}, known |-> s.known],
                           commitEach, unlinkEach, T, sz)
         IN [r EXCEPT !.ins = <<I(IF p \in st.exists THEN "open" ELSE "create", p, 0)>> \o s.ins
                               \o (IF noholes THEN <<I("flush", 0, 0), I("truncend", 0, 0)>> ELSE <<>>)   \* the final pack_handle.truncate()
                               \o <<IS(nrows), I("flush", 0, 0), I("fsync", 0, 0), I("closefile", 0, 0)>>
                               \o (IF commitEach THEN <<I("commit", 0, 0)>> ELSE <<>>)
                               \o (IF unlinkEach THEN [i \in DOMAIN s.done |-> I("unlinkloose", s.done[i], 0)] ELSE <<>>)
                               \o @]

PrePack(c, p) == IF p \in DOMAIN c.pre.packs THEN c.pre.packs[p] ELSE <<>>
St0(c) == [rows |-> c.pre.idx, bytes |-> [p \in 0..MaxPack |-> SumSz(PrePack(c, p), c.sz)],
           lens |-> [p \in 0..MaxPack |-> Len(PrePack(c, p))], exists |-> c.pre.exists, known |-> KeysOf(c.pre.idx)]

AddToPackProg(c) == PackSegs(c.ks, c.noholes, St0(c), TRUE, FALSE, c.target, c.sz).ins
PackAllProg(c) == PackSegs(c.ks, FALSE, St0(c), TRUE, c.perpack, c.target, c.sz).ins

(* import_objects, same hash type (container.py:2058-2290): what the destination already has is filtered out first;
   the rest arrives in the order the source yields it (ks) and is written in batches that fit the memory budget, an
   object above the budget alone and at once; one transaction, committed at the very end. *)
RECURSIVE ImpBatches(_, _, _, _, _)
ImpBatches(ks, cache, csize, sz, budget) ==
    IF ks = <<>> THEN (IF cache = <<>> THEN <<>> ELSE <<cache>>)
    ELSE LET k == Head(ks) IN
         IF sz[k] > budget THEN <<<<k>>>> \o ImpBatches(Tail(ks), cache, csize, sz, budget)
         ELSE IF csize + sz[k] > budget
                 THEN (IF cache = <<>> THEN <<>> ELSE <<cache>>) \o ImpBatches(Tail(ks), <<k>>, sz[k], sz, budget)
                 ELSE ImpBatches(Tail(ks), Append(cache, k), csize + sz[k], sz, budget)
RECURSIVE RunBatches(_, _, _, _)
RunBatches(bs, st, T, sz) ==
    IF bs = <<>> THEN <<I("commit", 0, 0)>>
    ELSE LET r == PackSegs(Head(bs), FALSE, st, FALSE, FALSE, T, sz)
             ins == IF ImportFsyncOnlyLast /\ Len(bs) > 1 THEN SelectSeq(r.ins, LAMBDA n : n.op # "fsync") ELSE r.ins
         IN ins \o RunBatches(Tail(bs), r.st, T, sz)
ImportProg(c) ==
    LET new == SelectSeq(c.ks, LAMBDA k : k \notin KeysOf(c.pre.idx) /\ c.pre.loose[k] # "good")
    IN RunBatches(ImpBatches(new, <<>>, 0, c.sz, c.budget), St0(c), c.target, c.sz)

CleanProg(pre, order) == [i \in DOMAIN order |-> I("unlinkloose", order[i], 0)]

AddLooseProg(k) == <<I("sbxwrite", k, 0), I("sbxfsync", k, 0), I("rename", k, 0)>>

ProgOf(c) ==
    CASE c.op = "repack"  -> RepackProg(c.pre)
      [] c.op = "delete"  -> DeleteProg(c.pre, c.ks)
      [] c.op = "addpack" -> AddToPackProg(c)
      [] c.op = "pack"    -> PackAllProg(c)
      [] c.op = "import"  -> ImportProg(c)
      [] c.op = "clean"   -> CleanProg(c.pre, c.ks)
      [] c.op = "add"     -> AddLooseProg(c.ks[1])

-----------------------------------------------------------------------------
(* The observable events of a program (what the interposition layer sees): used by the conformance check. *)
RECURSIVE Abs(_, _, _, _, _, _)
Abs(p, i, nbuf, ix, st, lo) ==     \* nbuf: extents in the user buffer; ix: committed index; st: staged; lo: loose
    IF i > Len(p) THEN <<>>
    ELSE LET n == p[i] IN
      CASE n.op = "create"      -> <<"bind:pack:" \o ToString(n.a)>> \o Abs(p, i + 1, 0, ix, st, lo)
        [] n.op = "open"        -> Abs(p, i + 1, 0, ix, st, lo)
        [] n.op = "buf"         -> Abs(p, i + 1, nbuf + 1, ix, st, lo)
        [] n.op \in {"flush", "closefile"} -> (IF nbuf > 0 THEN <<"write">> ELSE <<>>) \o Abs(p, i + 1, 0, ix, st, lo)
        [] n.op \in {"trunc1", "truncend"} -> <<"trunc">> \o Abs(p, i + 1, nbuf, ix, st, lo)
        [] n.op = "seekback"    -> Abs(p, i + 1, nbuf, ix, st, lo)
        [] n.op = "fsync"       -> <<"fsync">> \o Abs(p, i + 1, nbuf, ix, st, lo)
        [] n.op = "stage"       -> Abs(p, i + 1, nbuf, ix, n.rows, lo)
        [] n.op = "commit"      -> (IF st # ix THEN <<"rows">> ELSE <<>>) \o Abs(p, i + 1, nbuf, st, st, lo)
        [] n.op = "unlinkpack"  -> <<"unbind:pack:" \o ToString(n.a)>> \o Abs(p, i + 1, nbuf, ix, st, lo)
        [] n.op = "link"        -> <<"bind:pack:" \o ToString(n.b)>> \o Abs(p, i + 1, nbuf, ix, st, lo)
        [] n.op = "unlinkloose" -> <<"unbind:loose:" \o n.a>> \o Abs(p, i + 1, nbuf, ix, st, lo)
        [] n.op = "sbxwrite"    -> <<"write">> \o Abs(p, i + 1, nbuf, ix, st, lo)
        [] n.op = "sbxfsync"    -> <<"fsync">> \o Abs(p, i + 1, nbuf, ix, st, lo)
        [] n.op = "rename"      -> (IF lo[n.a] = "good" THEN <<>> ELSE <<"bind:loose:" \o n.a>>) \o Abs(p, i + 1, nbuf, ix, st, lo)

Observable(c) == Abs(ProgOf(c), 1, 0, c.pre.idx, c.pre.idx, c.pre.loose)

-----------------------------------------------------------------------------
Init ==
    \E c \in Cases :
        /\ ino = [i \in 1..MaxIno |-> IF i = 1 /\ (0 \in c.pre.exists) THEN [content |-> c.pre.packs[0], synced |-> Len(c.pre.packs[0])]
                                       ELSE IF i = 2 /\ (1 \in c.pre.exists) THEN [content |-> c.pre.packs[1], synced |-> Len(c.pre.packs[1])]
                                       ELSE Empty]
        /\ nxt = 3
        /\ names = [p \in PackIds |-> IF p = 0 /\ 0 \in c.pre.exists THEN 1 ELSE IF p = 1 /\ 1 \in c.pre.exists THEN 2 ELSE 0]
        /\ loose = c.pre.loose
        /\ idx = c.pre.idx
        /\ staged = [on |-> FALSE, v |-> {}]
        /\ ubuf = <<>> /\ cur = 0 /\ sbx = "none"
        /\ prog = ProgOf(c) /\ pci = 1 /\ stopped = FALSE /\ power = FALSE
        /\ must = ({k \in Keys : c.pre.loose[k] = "good"} \cup KeysOf(c.pre.idx)) \ (IF c.op = "delete" THEN Range(c.ks) ELSE {})

In == prog[pci]

Exec ==
    /\ ~stopped /\ pci <= Len(prog)
    /\ pci' = pci + 1
    /\ UNCHANGED <<prog, stopped, power, must>>
    /\ CASE In.op = "create" ->
              /\ names' = [names EXCEPT ![In.a] = nxt] /\ ino' = [ino EXCEPT ![nxt] = Empty] /\ nxt' = nxt + 1 /\ cur' = nxt
              /\ UNCHANGED <<loose, idx, staged, ubuf, sbx>>
         [] In.op = "open" ->
              /\ cur' = names[In.a] /\ UNCHANGED <<ino, nxt, names, loose, idx, staged, ubuf, sbx>>
         [] In.op = "buf" ->
              /\ ubuf' = Append(ubuf, In.a) /\ UNCHANGED <<ino, nxt, names, loose, idx, staged, cur, sbx>>
         [] In.op = "flush" ->
              /\ ino' = [ino EXCEPT ![cur].content = @ \o ubuf] /\ ubuf' = <<>>
              /\ UNCHANGED <<nxt, names, loose, idx, staged, cur, sbx>>
         [] In.op = "trunc1" ->       \* seek back over the object just flushed and truncate
              /\ ino' = [ino EXCEPT ![cur].content = SubSeq(@, 1, Len(@) - 1),
                                    ![cur].synced = IF @ > Len(ino[cur].content) - 1 THEN Len(ino[cur].content) - 1 ELSE @]
              /\ UNCHANGED <<nxt, names, loose, idx, staged, ubuf, cur, sbx>>
         [] In.op = "seekback" ->     \* deviation: the bytes stay where they are (append mode)
              /\ UNCHANGED <<ino, nxt, names, loose, idx, staged, ubuf, cur, sbx>>
         [] In.op = "truncend" ->     \* truncate() at the current end: nothing to cut
              /\ UNCHANGED <<ino, nxt, names, loose, idx, staged, ubuf, cur, sbx>>
         [] In.op = "fsync" ->
              /\ ino' = [ino EXCEPT ![cur].synced = Len(ino[cur].content)]
              /\ UNCHANGED <<nxt, names, loose, idx, staged, ubuf, cur, sbx>>
         [] In.op = "closefile" ->
              /\ ino' = [ino EXCEPT ![cur].content = @ \o ubuf] /\ ubuf' = <<>> /\ cur' = 0
              /\ UNCHANGED <<nxt, names, loose, idx, staged, sbx>>
         [] In.op = "stage" ->
              /\ staged' = [on |-> TRUE, v |-> In.rows] /\ UNCHANGED <<ino, nxt, names, loose, idx, ubuf, cur, sbx>>
         [] In.op = "commit" ->
              /\ idx' = (IF staged.on THEN staged.v ELSE idx) /\ staged' = [on |-> FALSE, v |-> {}]
              /\ UNCHANGED <<ino, nxt, names, loose, ubuf, cur, sbx>>
         [] In.op = "unlinkpack" ->
              /\ names' = [names EXCEPT ![In.a] = 0] /\ UNCHANGED <<ino, nxt, loose, idx, staged, ubuf, cur, sbx>>
         [] In.op = "link" ->
              /\ names' = [names EXCEPT ![In.b] = names[In.a]] /\ UNCHANGED <<ino, nxt, loose, idx, staged, ubuf, cur, sbx>>
         [] In.op = "unlinkloose" ->
              /\ loose' = [loose EXCEPT ![In.a] = "absent"] /\ UNCHANGED <<ino, nxt, names, idx, staged, ubuf, cur, sbx>>
         [] In.op = "sbxwrite" ->
              /\ sbx' = "written" /\ UNCHANGED <<ino, nxt, names, loose, idx, staged, ubuf, cur>>
         [] In.op = "sbxfsync" ->
              /\ sbx' = "synced" /\ UNCHANGED <<ino, nxt, names, loose, idx, staged, ubuf, cur>>
         [] In.op = "rename" ->
              /\ loose' = [loose EXCEPT ![In.a] = IF loose[In.a] = "good" THEN "good" ELSE IF sbx = "synced" THEN "good" ELSE "unsynced"]
              /\ sbx' = "none"
              /\ UNCHANGED <<ino, nxt, names, idx, staged, ubuf, cur>>

(* a process kill or a failing call: the actor stops; what it held in user space is gone *)
Stop == /\ ~stopped /\ pci <= Len(prog)
        /\ stopped' = TRUE /\ ubuf' = <<>> /\ staged' = [on |-> FALSE, v |-> {}] /\ cur' = 0
        /\ UNCHANGED <<ino, nxt, names, loose, idx, sbx, prog, pci, power, must>>

PowerLoss ==
    /\ AllowPower /\ ~power
    /\ power' = TRUE /\ stopped' = TRUE /\ ubuf' = <<>> /\ staged' = [on |-> FALSE, v |-> {}] /\ cur' = 0
    /\ ino' = [i \in 1..MaxIno |-> [content |-> SubSeq(ino[i].content, 1, ino[i].synced), synced |-> ino[i].synced]]
    /\ loose' = [k \in Keys |-> IF loose[k] = "unsynced" THEN "torn" ELSE loose[k]]
    /\ UNCHANGED <<nxt, names, idx, sbx, prog, pci, must>>

Next == Exec \/ Stop \/ PowerLoss
Spec == Init /\ [][Next]_vars

-----------------------------------------------------------------------------
(* What a new handle finds for a row / a key, if everything stopped here *)
RowOutcome(r) ==
    IF r.p = Tmp THEN "LOUD"                               \* the one tolerated anomaly (interrupted repack)
    ELSE IF names[r.p] = 0 THEN "NOPACK"
    ELSE IF r.pos > Len(ino[names[r.p]].content) THEN "PARTIAL"
    ELSE IF ino[names[r.p]].content[r.pos] = r.k THEN "OK" ELSE "WRONG"
KeyOutcome(k) ==
    IF \E r \in idx : r.k = k THEN RowOutcome(CHOOSE r \in idx : r.k = k)
    ELSE IF loose[k] \in {"good", "unsynced"} THEN "OK" ELSE IF loose[k] = "torn" THEN "PARTIAL" ELSE "ABSENT"

(* C05: nothing stored is lost or torn; a new handle never returns wrong bytes *)
Recoverable == /\ \A k \in must : KeyOutcome(k) \in {"OK", "LOUD"}
               /\ \A k \in Keys : KeyOutcome(k) \in {"OK", "LOUD", "ABSENT"}
               (* even while the index points at the temporary pack the bytes are there for a manual repair *)
               /\ \A r \in idx : r.p = Tmp => (names[Tmp] # 0 /\ r.pos <= Len(ino[names[Tmp]].content)
                                               /\ ino[names[Tmp]].content[r.pos] = r.k)
KeysUnique == Cardinality(KeysOf(idx)) = Cardinality(idx)

(* C06: every committed row designates durable bytes, every loose file under its key is durable *)
DurableVisible ==
    power \/ (/\ \A r \in idx : names[r.p] # 0 /\ r.pos <= ino[names[r.p]].synced
              /\ \A k \in Keys : loose[k] # "unsynced")

(* after the whole program: the operation's normal result *)
Completed == (pci > Len(prog) /\ ~stopped) => /\ ubuf = <<>> /\ ~staged.on
                                              /\ names[Tmp] = 0
                                              /\ \A r \in idx : r.p # Tmp
=============================================================================
