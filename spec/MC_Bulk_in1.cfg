SPECIFICATION Spec
CONSTANTS
  Keys <- MCKeys
  Snap <- MCSnap
  Idx <- MCIdx
  Loose <- MCLoose
  Requests <- MCRequests
  InMax = 1
  MaxChunkIterate = 2
  SkipIfMissing = FALSE
  IterateRequestList = FALSE
  RetryKeepsDuplicates = FALSE
  NoRetry = FALSE
INVARIANT EachKeyOnce
INVARIANT Pointwise
