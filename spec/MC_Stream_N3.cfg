SPECIFICATION Spec
CONSTANTS
  N = 3
  MaxPos = 12
  ReadSizes <- MCReadSizes
  SeekTargets <- MCSeekTargets
INVARIANT TypeOK
INVARIANT ReadsInside
INVARIANT PositionSane
PROPERTY InRangeLikeMemoryFile
PROPERTY RejectedKeepsPosition
