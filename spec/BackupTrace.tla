------------------------------ MODULE BackupTrace ------------------------------
(***************************************************************************)
(* C15: a backup that completes while the container is in use is itself a  *)
(* valid container.  One line per backup taken by the real                 *)
(* backup_container (real rsync) with concurrent add / pack / clean /      *)
(* direct-to-pack steps placed at the boundaries of its copy phases:       *)
(*   before  contents that existed when the backup started                 *)
(*   views   what the backup folder, opened as a container, answers for    *)
(*           every content of the universe                                 *)
(*   listed  every key the backup exposes, with the class of its bytes     *)
(*   val     validate() of the backup                                      *)
(*   obs     raw projection of the backup folder                           *)
(*   failed  the backup raised (outside the property, only counted)        *)
(***************************************************************************)
EXTENDS DosPred, TLC, Json, IOUtils

All == ndJsonDeserialize(IOEnv.TRACE_FILE)
N == Len(All)
VARIABLE l
Init == l \in 1..N
Next == UNCHANGED l
Spec == Init /\ [][Next]_l
Ln == All[l]
Ok == ~Ln.failed

C15_Complete == Ok => \A v \in SeqToSet(Ln.views) : v.k \in SeqToSet(Ln.before) => (v.has /\ v.cls = "OK")
C15_ExposedReadCorrectly ==
    Ok => /\ \A v \in SeqToSet(Ln.views) : v.cls \in {"OK", "NotExistent"}
          /\ \A x \in SeqToSet(Ln.listed) : x.cls = "OK"
C15_ValidateClean == Ok => Ln.val = "clean"
C15_IndexOK == Ok => IndexOK(Ln.obs)
=============================================================================
