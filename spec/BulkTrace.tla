------------------------------ MODULE BulkTrace ------------------------------
(***************************************************************************)
(* C16: the result of a bulk call equals the single-key call applied to    *)
(* each distinct requested key, whatever the request length, order,        *)
(* repetitions and internal lookup strategy.  One line per bulk call       *)
(* recorded from the real library:                                         *)
(*   req      requested keys (with repetitions, in request order)          *)
(*   skip     skip_if_missing                                              *)
(*   bulk     entries the bulk call produced: [k, v]                       *)
(*   single   what the single-key call answers for each distinct key       *)
(*   flags    (has_objects only) the positional list of booleans           *)
(***************************************************************************)
EXTENDS Integers, Sequences, FiniteSets, TLC, Json, IOUtils

All == ndJsonDeserialize(IOEnv.TRACE_FILE)
N == Len(All)
VARIABLE l
Init == l \in 1..N
Next == UNCHANGED l
Spec == Init /\ [][Next]_l

Ln == All[l]
S(s) == {s[i] : i \in DOMAIN s}
Req == S(Ln.req)
SingleOf(k) == (CHOOSE x \in S(Ln.single) : x.k = k).v
Missing == {k \in Req : SingleOf(k) = "MISSING"}

(* each distinct requested key is reported exactly once (missing ones only when asked for) *)
C16_EachKeyOnce ==
    LET expected == IF Ln.skip THEN Req \ Missing ELSE Req
    IN /\ {e.k : e \in S(Ln.bulk)} = expected
       /\ Len(Ln.bulk) = Cardinality(expected)

(* and carries what the single-key call answers *)
C16_BulkIsPointwise == \A e \in S(Ln.bulk) : e.k \in Req /\ e.v = SingleOf(e.k)

(* has_objects: the i-th flag answers for the i-th requested key *)
C16_FlagsPositional ==
    Ln.call = "has" => /\ Len(Ln.flags) = Len(Ln.req)
                       /\ \A i \in DOMAIN Ln.req : Ln.flags[i] = (SingleOf(Ln.req[i]) # "MISSING")

(* conformance with Bulk.tla (no concurrent packer here, so no retry pass): what the index holds is yielded first, then
   the loose files, then the missing keys -- Bulk!PhaseOrder *)
Rank(w) == CASE w = "packed" -> 1 [] w = "loose" -> 2 [] OTHER -> 3
Conf_PhaseOrder == Ln.call \in {"meta", "streams"} =>
    \A i, j \in DOMAIN Ln.bulk : i < j => Rank(Ln.bulk[i].w) <= Rank(Ln.bulk[j].w)

(* maintenance calls under lowered thresholds leave the same store as under the default ones *)
C16_SameOutcome == Ln.call = "maint" => Ln.same
=============================================================================
