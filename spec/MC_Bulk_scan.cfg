SPECIFICATION Spec
CONSTANTS
  Keys <- MCKeys
  Snap <- MCSnap
  Idx <- MCIdx
  Loose <- MCLoose
  Requests <- MCRequests
  InMax = 2
  MaxChunkIterate = 1
  SkipIfMissing = FALSE
  IterateRequestList = FALSE
  RetryKeepsDuplicates = FALSE
  NoRetry = FALSE
INVARIANT EachKeyOnce
INVARIANT Pointwise
