SPECIFICATION Spec
CONSTANTS
  WritePaths = {"add_object", "add_streamed_object", "to_pack_single", "to_pack_batch", "streamed_to_pack_single", "streamed_to_pack_batch", "streamed_to_pack_lazy", "loose_then_pack", "streamed_shortread", "streamed_to_pack_shortread", "streamed_to_pack_noholes", "streamed_to_pack_intruder"}
  LooseOnly = {"add_object", "add_streamed_object", "streamed_shortread"}
  ReadPaths = {"content", "bulk_content", "stream_1", "stream_7", "stream_65536", "stream_524289", "bulk_stream", "meta", "stale_content", "stale_bulk_stream", "stale_meta", "scan_bulk_content", "scan_bulk_stream"}
  SizeClasses = {0, 1, 2, 65535, 65536, 65537, 131071, 131072, 131073, 524287, 524288, 524289, 1048579}
INVARIANT RoundTrip
INVARIANT KeyIsContent
