SPECIFICATION Spec
CONSTANTS
  Keys <- MCKeys
  Cases <- MCCases
  AllowPower = TRUE
  RepackCommitBeforeFsync = TRUE
  RepackUnlinkOldFirst = FALSE
  SeekBackWithoutTruncate = FALSE
  RepackNoIntermediateCommit = FALSE
  ImportFsyncOnlyLast = FALSE
  DeleteIndexFirst = FALSE
INVARIANT Recoverable
INVARIANT KeysUnique
INVARIANT DurableVisible
INVARIANT Completed
