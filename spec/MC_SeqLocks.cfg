SPECIFICATION MCSpecLocks
CONSTANTS
  Keys <- MCKeys
  Size <- MCSize
  ZLen <- MCZLen
  AutoZ <- MCAutoZ
  PackTarget = 3
  MaxPack = 4
  Handles = {"h1"}
  AppendIgnoresSeek = FALSE
  ListUsesPinnedSnapshot = FALSE
  MaxDepth = 4
CONSTRAINT Depth
VIEW MCViewLocks
INVARIANT TypeOK
INVARIANT Refines
INVARIANT ViewsEqualMap
INVARIANT ListEqualsMap
INVARIANT Inv_IndexOK
INVARIANT Inv_Dedup
INVARIANT Inv_PackNumbering
INVARIANT SnapshotsAreOld
PROPERTY Act_AppendOnly
PROPERTY Act_OnlyLastPackGrows
PROPERTY Act_NoHoles
PROPERTY Act_DeleteExact
PROPERTY Act_RepackCompact
PROPERTY Act_MaintenanceKeepsMap
