------------------------------ MODULE MC_Multi ------------------------------
(* C08: three handles on one folder, one call at a time.  Any handle adds     *)
(* loose objects and queries; only the packing handle packs and cleans.       *)
EXTENDS DosSeq
CONSTANT MaxDepth

MCKeys == {"k1", "k2"}
MCSize == [k \in MCKeys |-> IF k = "k1" THEN 1 ELSE 2]
MCZLen == [k \in MCKeys |-> 1]
MCAutoZ == [k \in MCKeys |-> k = "k2"]

MultiNext ==
    \/ \E h \in Handles, k \in Keys : AddLoose(h, k) /\ NL
    \/ \E mode \in {"NO", "YES"}, pp \in BOOLEAN :
          \E order \in SetToSeqs(LoosePresent \ KeysOf(V("hp"))) : PackAllLoose("hp", mode, pp, order) /\ NL
    \/ Clean("hp") /\ NL
    \/ \E h \in Handles, S \in {{"k1"}, {"k2"}, Keys} : Has(h, S) /\ NL
    \/ \E h \in Handles : List(h) /\ NL
    \/ \E h \in Handles : ListPart(h) /\ NL

MultiSpec == Init /\ [][MultiNext]_vars
Depth == TLCGet("level") <= MaxDepth
MCView == core
=============================================================================
