------------------------------ MODULE MC_Merge ------------------------------
EXTENDS Merge
RECURSIVE SeqsUpTo(_, _)
SeqsUpTo(S, n) == IF n = 0 THEN {<<>>} ELSE SeqsUpTo(S, n - 1) \cup {Append(s, x) : s \in SeqsUpTo(S, n - 1), x \in S}
SortedSeqs(S) == {s \in SeqsUpTo(S, Cardinality(S)) : \A i \in 1..(Len(s) - 1) : s[i] < s[i + 1]}
(* all pairs of sorted duplicate-free sequences over 1..5 (1024 pairs) *)
SortedInputs == SortedSeqs(1..5) \X SortedSeqs(1..5)
(* all pairs of sequences of length <= 3 over 1..3, sorted or not (1600 pairs) *)
AnyInputs == SeqsUpTo(1..3, 3) \X SeqsUpTo(1..3, 3)
=============================================================================
