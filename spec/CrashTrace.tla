------------------------------ MODULE CrashTrace ------------------------------
(***************************************************************************)
(* Monitor for crash / power-loss images (C05, C06) and for the state left *)
(* by an operation in which one call failed (C17).                         *)
(*                                                                         *)
(* One trace per operation scenario; one line per image.  A line carries   *)
(*   kind   "crash" | "torn" | "power" | "fault"                           *)
(*   ev     the call before which the process died / that failed           *)
(*   obs    raw projection of the image (sqlite3 + zlib + hashlib)         *)
(*   views  what a fresh handle answers for every key of the universe      *)
(* The trace header gives the scenario's meaning for the key -> content    *)
(* map: acked (stored before the operation), adds, deletes, damaged.       *)
(***************************************************************************)
EXTENDS DosPred, TLC, Json, IOUtils

All == ndJsonDeserialize(IOEnv.TRACE_FILE)
NTraces == Len(All) - 1
Trace(t) == All[t + 1]
Universe == SeqToSet(All[1].universe)

VARIABLES tid, l
vars == <<tid, l>>

Init == tid \in 1..NTraces /\ l = 1 /\ Len(Trace(tid).lines) >= 1
Next == l < Len(Trace(tid).lines) /\ l' = l + 1 /\ tid' = tid
Spec == Init /\ [][Next]_vars

T == Trace(tid)
Ln == T.lines[l]
O == Ln.obs
Acked == SeqToSet(T.acked)
Adds == SeqToSet(T.adds)
Deletes == SeqToSet(T.deletes)
Damaged == SeqToSet(T.damaged)
Must == Acked \ (Deletes \cup Damaged)          \* stored before, not targeted by a deletion
IsCrash == Ln.kind \in {"crash", "torn"}
IsPower == Ln.kind = "power"

(* the one tolerated anomaly: an interrupted repack left the index pointing at the temporary pack *)
TempRow(o) == \E r \in Rows(o) : r.p < 0

(* every stored object is still on disk, complete, exactly where the index or the loose folder says *)
Recoverable(o) ==
    /\ \A k \in Must : k \in StoreKeys(o)
    /\ \A r \in Rows(o) : r.k \in Must => r.tag = "whole"
    /\ \A x \in SeqToSet(o.loose) : x.k \in Must => x.tag = "good"

(* nothing partial is visible under a key: objects being added are absent or complete *)
NoTornObject(o) ==
    /\ \A r \in Rows(o) : r.tag = "whole"
    /\ \A x \in SeqToSet(o.loose) : x.tag = "good" \/ x.k \in Damaged

(* a new handle never returns wrong bytes *)
ReadsSafe(o, views) ==
    \A v \in SeqToSet(views) :
        IF v.k \in Damaged THEN TRUE
        ELSE IF v.k \in Must THEN (v.cls = "OK" /\ v.has) \/ (v.cls = "RAISED" /\ TempRow(o))
        ELSE IF v.k \in (Adds \cup Deletes) THEN v.cls \in {"OK", "NotExistent"} \/ (v.cls = "RAISED" /\ TempRow(o))
        ELSE v.cls = "NotExistent"

C05_Recoverable  == IsCrash => Recoverable(O)
C05_NoTornObject == IsCrash => NoTornObject(O)
C05_ReadsSafe    == IsCrash => ReadsSafe(O, Ln.views)

C06_DurableVisible == IsPower => Recoverable(O)
C06_NoTornObject   == IsPower => NoTornObject(O)
C06_ReadsSafe      == IsPower => ReadsSafe(O, Ln.views)

(* ---- C17: the state after an operation in which one call raised an I/O error ---- *)
IsFault == Ln.kind = "fault"
(* the operation either completes correctly or raises *)
C17_CompletesOrRaises ==
    IsFault => (Ln.raised \/ (/\ \A k \in Adds : k \in StoreKeys(O)
                              /\ \A k \in Deletes : k \notin StoreKeys(O)))
C17_StoreIntact == IsFault => (Recoverable(O) /\ NoTornObject(O))
C17_ReadsSafe   == IsFault => ReadsSafe(O, Ln.views)
(* once the fault clears a new handle reruns the operation to its normal result *)
C17_RerunOK == (IsFault /\ ~(T.repack /\ Ln.raised)) =>
    /\ Ln.rerun.raised = ""
    /\ \A k \in (Acked \cup Adds) \ Deletes : k \in SeqToSet(Ln.rerun.present) \/ k \in Damaged \ Adds
    /\ \A k \in Deletes : k \notin SeqToSet(Ln.rerun.present)
    /\ Ln.rerun.allok
=============================================================================
