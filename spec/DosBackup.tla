------------------------------ MODULE DosBackup ------------------------------
(***************************************************************************)
(* C15 at design level: backup_container (backup_utils.py:321-395) copies  *)
(* the loose files, takes a consistent dump of the index, copies the dump, *)
(* copies the pack files, then everything else, while other clients keep   *)
(* adding loose objects, packing (append -> commit), cleaning (unlink what  *)
(* is committed) and adding directly to packs (append -> commit).          *)
(* The copy of a phase is not atomic: loose files are copied or missed one  *)
(* at a time, a growing pack is copied up to some length between its        *)
(* length when the phase started and its current length.                   *)
(*   Order                the sequence of the backup's phases (the code's  *)
(*                        order is loose, dump, idx, packs, rest)          *)
(*   Incremental, PrevIdx, IdxByChecksum                                   *)
(*                        with --link-dest rsync does not transfer a file  *)
(*                        whose size and modification time (whole seconds) *)
(*                        equal those of the previous backup's copy: it    *)
(*                        hard-links the old one.  Loose files are         *)
(*                        immutable and packs only grow, but a fresh dump  *)
(*                        of the index made in the same second as the      *)
(*                        previous one usually has the same size (SQLite   *)
(*                        pages).  IdxByChecksum = the dump is compared by *)
(*                        content (the code after the repair)              *)
(*   RestCopiesLiveIndex  the last phase also copies the live index side   *)
(*                        files (what the code did before the repair): the *)
(*                        backup's index then is the index at that time    *)
(***************************************************************************)
EXTENDS Integers, Sequences, FiniteSets, TLC

CONSTANTS Keys, Loose0, Packed0, AddKeys, DirectKeys, PackRounds, CleanRounds, Order, RestCopiesLiveIndex,
          PrevIdx,          \* incremental backup: the index of the previous backup (rsync --link-dest), {} when there is none
          Incremental, IdxByChecksum

VARIABLES sl, sp, si,             \* source: loose files, pack extents (sequence of keys), committed rows [k, pos]
          ptodo, ppc, rounds, crounds,  \* packer / cleaner: what is being packed, pc, rounds left
          dk,                     \* key being added directly ("" when none)
          bl, bi, bp,             \* backup: loose copies, index dump, pack copy
          pos, seen, plen0,       \* position in Order (0 = not started); loose files already considered; pack length at phase start
          existed                 \* ghost: what existed when the backup started

vars == <<sl, sp, si, ptodo, ppc, rounds, crounds, dk, bl, bi, bp, pos, seen, plen0, existed>>
KeysOf(R) == {r.k : r \in R}
Range(s) == {s[i] : i \in DOMAIN s}
Phase == IF pos = 0 THEN "start" ELSE IF pos > Len(Order) THEN "done" ELSE Order[pos]
Known == sl \cup KeysOf(si) \cup Range(sp)
Perms(S) == {s \in [1..Cardinality(S) -> S] : \A i, j \in DOMAIN s : i # j => s[i] # s[j]}

Init == /\ sl = Loose0 /\ sp = Packed0 /\ si = {[k |-> Packed0[i], pos |-> i] : i \in DOMAIN Packed0}
        /\ ptodo = <<>> /\ ppc = "idle" /\ rounds = PackRounds /\ crounds = CleanRounds /\ dk = ""
        /\ bl = {} /\ bi = {} /\ bp = <<>> /\ pos = 0 /\ seen = {} /\ plen0 = 0 /\ existed = {}

ClientUnch == UNCHANGED <<bl, bi, bp, pos, seen, plen0, existed>>

(* ---- other clients ---- *)
Add(k) == /\ k \in AddKeys /\ sl' = sl \cup {k}      \* also a key that is already loose (no change) or packed (a loose duplicate)
          /\ UNCHANGED <<sp, si, ptodo, ppc, rounds, crounds, dk>> /\ ClientUnch
(* pack_all_loose: the loose keys that have no row; one writer to the packs at a time (the pack's lock file) *)
PStart(order) == /\ ppc = "idle" /\ rounds > 0 /\ dk = ""
                 /\ order \in Perms(sl \ KeysOf(si)) /\ ptodo' = order
                 /\ ppc' = "append" /\ rounds' = rounds - 1
                 /\ UNCHANGED <<sl, sp, si, crounds, dk>> /\ ClientUnch
PAppend == /\ ppc = "append" /\ sp' = sp \o ptodo /\ ppc' = "commit"
           /\ UNCHANGED <<sl, si, ptodo, rounds, crounds, dk>> /\ ClientUnch
PCommit == /\ ppc = "commit"
           /\ si' = si \cup {[k |-> ptodo[i], pos |-> Len(sp) - Len(ptodo) + i] : i \in DOMAIN ptodo}
           /\ ppc' = "packed"
           /\ UNCHANGED <<sl, sp, ptodo, rounds, crounds, dk>> /\ ClientUnch
(* clean_loose_per_pack: unlink exactly the loose files this call packed (not others that happen to have a row) *)
PCleanOwn(k) == /\ ppc = "packed" /\ k \in Range(ptodo) \cap sl /\ sl' = sl \ {k}
                /\ UNCHANGED <<sp, si, ptodo, ppc, rounds, crounds, dk>> /\ ClientUnch
PDone == /\ ppc = "packed" /\ ppc' = "idle" /\ ptodo' = <<>>
         /\ UNCHANGED <<sl, sp, si, rounds, crounds, dk>> /\ ClientUnch
(* PCleanOwn* . PDone in one step (binding) *)
PCleanOwnAll == /\ ppc = "packed" /\ sl' = sl \ Range(ptodo) /\ ppc' = "idle" /\ ptodo' = <<>>
                /\ UNCHANGED <<sp, si, rounds, crounds, dk>> /\ ClientUnch
(* clean_storage (and clean_loose_per_pack): unlink the loose files whose key has a committed row *)
CStart == /\ ppc = "idle" /\ crounds > 0 /\ ppc' = "clean" /\ crounds' = crounds - 1
          /\ UNCHANGED <<sl, sp, si, ptodo, rounds, dk>> /\ ClientUnch
CleanOne(k) == /\ ppc = "clean" /\ k \in sl \cap KeysOf(si) /\ sl' = sl \ {k}
               /\ UNCHANGED <<sp, si, ptodo, ppc, rounds, crounds, dk>> /\ ClientUnch
CleanDone == /\ ppc = "clean" /\ sl \cap KeysOf(si) = {} /\ ppc' = "idle"
             /\ UNCHANGED <<sl, sp, si, ptodo, rounds, crounds, dk>> /\ ClientUnch
(* the same as CleanOne* . CleanDone in one step (used when binding recorded executions, where the clean is atomic) *)
CleanAll == /\ ppc = "clean" /\ sl' = sl \ KeysOf(si) /\ ppc' = "idle"
            /\ UNCHANGED <<sp, si, ptodo, rounds, crounds, dk>> /\ ClientUnch
DAppend(k) == /\ dk = "" /\ ppc \in {"idle", "clean"} /\ k \in DirectKeys \ Known
              /\ sp' = Append(sp, k) /\ dk' = k
              /\ UNCHANGED <<sl, si, ptodo, ppc, rounds, crounds>> /\ ClientUnch
DCommit == /\ dk # "" /\ si' = si \cup {[k |-> dk, pos |-> Len(sp)]} /\ dk' = ""
           /\ UNCHANGED <<sl, sp, ptodo, ppc, rounds, crounds>> /\ ClientUnch
Clients == \/ \E k \in Keys : Add(k) \/ CleanOne(k) \/ DAppend(k) \/ PCleanOwn(k)
           \/ PDone
           \/ \E o \in Perms(sl \ KeysOf(si)) : PStart(o)
           \/ PAppend \/ PCommit \/ CStart \/ CleanDone \/ DCommit

(* ---- the backup ---- *)
SrcUnch == UNCHANGED <<sl, sp, si, ptodo, ppc, rounds, crounds, dk>>
Advance == /\ pos' = pos + 1
           /\ plen0' = IF pos + 1 <= Len(Order) /\ Order[pos + 1] = "packs" THEN Len(sp) ELSE plen0
BBegin == /\ pos = 0 /\ existed' = sl \cup KeysOf(si) /\ Advance
          /\ UNCHANGED <<bl, bi, bp, seen>> /\ SrcUnch
(* one loose file at a time: copied if it is (still) there.  A file that vanished after rsync listed it makes the
   backup fail, which is outside the property; files that appear later may be missed. *)
BLooseOne(k) == /\ Phase = "loose" /\ k \in sl \ seen /\ bl' = bl \cup {k} /\ seen' = seen \cup {k}
                /\ UNCHANGED <<bi, bp, pos, plen0, existed>> /\ SrcUnch
BLooseDone == /\ Phase = "loose" /\ sl \subseteq seen /\ Advance
              /\ UNCHANGED <<bl, bi, bp, seen, existed>> /\ SrcUnch
(* BLooseOne* . BLooseDone in one step (binding) *)
BLooseAll == /\ Phase = "loose" /\ bl' = bl \cup (sl \ seen) /\ seen' = seen \cup sl /\ Advance
             /\ UNCHANGED <<bi, bp, existed>> /\ SrcUnch
BDump == /\ Phase = "dump" /\ bi' = si /\ Advance
         /\ UNCHANGED <<bl, bp, seen, existed>> /\ SrcUnch
(* the dump (a private temporary file) is copied -- or, if rsync's quick check takes it for unchanged, the previous
   backup's index is linked instead *)
BIdx == /\ Phase = "idx" /\ Advance
        /\ \/ bi' = bi
           \/ Incremental /\ ~IdxByChecksum /\ bi' = PrevIdx
        /\ UNCHANGED <<bl, bp, seen, existed>> /\ SrcUnch
BPacks(n) == /\ Phase = "packs" /\ n \in plen0..Len(sp) /\ bp' = SubSeq(sp, 1, n) /\ Advance
             /\ UNCHANGED <<bl, bi, seen, existed>> /\ SrcUnch
BRest(live) == /\ Phase = "rest" /\ live = RestCopiesLiveIndex /\ bi' = (IF live THEN si ELSE bi) /\ Advance
               /\ UNCHANGED <<bl, bp, seen, existed>> /\ SrcUnch
Backup == \/ BBegin \/ BLooseDone \/ BDump \/ BIdx \/ BRest(RestCopiesLiveIndex)
          \/ \E k \in Keys : BLooseOne(k)
          \/ \E n \in 0..Len(sp) : BPacks(n)

Next == Clients \/ Backup
Spec == Init /\ [][Next]_vars

-----------------------------------------------------------------------------
RowOK(r) == r.pos <= Len(bp) /\ bp[r.pos] = r.k
(* a backup that completed is a valid container: what existed at its start is there, what it exposes reads correctly *)
BackupValid ==
    Phase = "done" =>
        /\ \A k \in existed : (\E r \in bi : r.k = k /\ RowOK(r)) \/ (k \in bl /\ ~\E r \in bi : r.k = k)
        /\ \A r \in bi : RowOK(r)
(* the source itself stays consistent (commit after append, unlink after commit) *)
SourceOK == /\ \A r \in si : r.pos <= Len(sp) /\ sp[r.pos] = r.k
            /\ \A k \in Keys : k \in Loose0 \cup Range(Packed0) => k \in sl \/ k \in KeysOf(si)
=============================================================================
