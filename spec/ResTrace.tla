------------------------------- MODULE ResTrace -------------------------------
(***************************************************************************)
(* C18: bounded resources.  Lines recorded from the real library:          *)
(*   bulkread  during a bulk read without seeks: the largest number of     *)
(*             pack/loose files open at once, and how many stay open after *)
(*   lazy      LazyOpener inputs of a direct-to-pack call: largest number  *)
(*             open at once, still open afterwards, number of inputs       *)
(*   growth    descriptors inside the folder after n repetitions of an     *)
(*             operation and after close()                                 *)
(*   mem       tracemalloc peak (KiB) of a streaming path for an object of *)
(*             `size` KiB, and the peak of the same path for a 1 MiB object *)
(* The descriptor census after every call of every history is checked in   *)
(* SeqTrace (C18_NoFdLeak, C18_ClosedNoFds).                               *)
(***************************************************************************)
EXTENDS Integers, Sequences, TLC, Json, IOUtils

All == ndJsonDeserialize(IOEnv.TRACE_FILE)
N == Len(All)
VARIABLE l
Init == l \in 1..N
Next == UNCHANGED l
Spec == Init /\ [][Next]_l
Ln == All[l]

PeakBoundKiB == 8192        \* size-independent bound on the peak of a streaming path
GrowthSlackKiB == 3072      \* a 32x larger object may not cost more than this on top of the 1 MiB peak

C18_OneDataFileOpen == Ln.kind = "bulkread" => (Ln.maxopen <= 1 /\ Ln.after = 0)
C18_LazyOpenOnlyWhileConsumed == Ln.kind = "lazy" => (Ln.maxopen <= 1 /\ Ln.after = 0 /\ Ln.opened = Ln.inputs)
C18_NoAccumulation == Ln.kind = "growth" => (Ln.during = 0 /\ Ln.idxfds <= Ln.idxfds_first /\ Ln.closed = 0)
C18_ChunkedMemory == Ln.kind = "mem" => (Ln.peak <= PeakBoundKiB /\ Ln.peak <= Ln.peak_small + GrowthSlackKiB)
=============================================================================
