------------------------------- MODULE DurTrace -------------------------------
(***************************************************************************)
(* L0 monitor for C06, driven by the *events* the library issues (no       *)
(* images): "an object becomes visible only after its bytes have been      *)
(* forced to stable storage, and a loose file or an old pack is removed    *)
(* only after the index entry that replaces it has been committed on top   *)
(* of durable bytes".                                                      *)
(*                                                                         *)
(* State (the physics of §3 of DESIGN.md): per file (inode) its kernel     *)
(* length and the length that was durable at its last fsync; which names   *)
(* (loose:<k>, pack:<p>) are bound to which file; the committed index      *)
(* rows.  One trace per operation scenario; lines in the order in which    *)
(* the real calls were observed by the interposition layer:                *)
(*   write f end | trunc f to | fsync f | bind name f | unbind name |      *)
(*   rows R (the committed rows changed: a COMMIT took effect)             *)
(* The header gives the files, names and rows that exist (and are durable) *)
(* before the operation, and the contents acknowledged before it.          *)
(***************************************************************************)
EXTENDS Integers, Sequences, FiniteSets, TLC, Json, IOUtils

All == ndJsonDeserialize(IOEnv.TRACE_FILE)
NTraces == Len(All)
Trace(t) == All[t]
S(s) == {s[i] : i \in DOMAIN s}

VARIABLES tid, l, klen, slen, names, rows
vars == <<tid, l, klen, slen, names, rows>>

T == Trace(tid)
MaxFile == 64
Files == 0..MaxFile

Init == /\ tid \in 1..NTraces
        /\ l = 0
        /\ klen = [f \in Files |-> IF \E x \in S(Trace(tid).files) : x.f = f
                                      THEN (CHOOSE x \in S(Trace(tid).files) : x.f = f).len ELSE 0]
        /\ slen = klen                       \* what exists before the operation counts as durable
        /\ names = {[name |-> x.name, f |-> x.f] : x \in S(Trace(tid).names)}
        /\ rows = S(Trace(tid).rows)

Ev == T.lines[l + 1]

Next == /\ l < Len(T.lines)
        /\ l' = l + 1 /\ tid' = tid
        /\ CASE Ev.e = "write"  -> /\ klen' = [klen EXCEPT ![Ev.f] = IF Ev.end > @ THEN Ev.end ELSE @]
                                   /\ UNCHANGED <<slen, names, rows>>
             [] Ev.e = "trunc"  -> /\ klen' = [klen EXCEPT ![Ev.f] = Ev.to]
                                   /\ slen' = [slen EXCEPT ![Ev.f] = IF Ev.to < @ THEN Ev.to ELSE @]
                                   /\ UNCHANGED <<names, rows>>
             [] Ev.e = "fsync"  -> /\ slen' = [slen EXCEPT ![Ev.f] = klen[Ev.f]]
                                   /\ UNCHANGED <<klen, names, rows>>
             [] Ev.e = "bind"   -> /\ names' = {n \in names : n.name # Ev.name} \cup {[name |-> Ev.name, f |-> Ev.f]}
                                   /\ UNCHANGED <<klen, slen, rows>>
             [] Ev.e = "unbind" -> /\ names' = {n \in names : n.name # Ev.name}
                                   /\ UNCHANGED <<klen, slen, rows>>
             [] Ev.e = "rows"   -> /\ rows' = S(Ev.rows)
                                   /\ UNCHANGED <<klen, slen, names>>
             [] OTHER           -> UNCHANGED <<klen, slen, names, rows>>

Spec == Init /\ [][Next]_vars

-----------------------------------------------------------------------------
IsLoose(n) == n.kind = "loose"
FileOf(name) == (CHOOSE n \in names : n.name = name).f
Bound(name) == \E n \in names : n.name = name

(* a loose file under its key holds only durable bytes *)
C06_LoosePublishedDurable ==
    \A n \in names : (\E x \in S(T.loosenames) : x = n.name) => slen[n.f] = klen[n.f]

(* a committed index row designates bytes that are durable in an existing pack file *)
C06_RowsOverDurableBytes ==
    \A r \in rows : /\ Bound(r.pack)
                    /\ slen[FileOf(r.pack)] >= r.off + r.len

(* every content acknowledged before the operation (and not targeted by a deletion) stays durably reachable *)
C06_AckedStaysDurable ==
    \A k \in S(T.must) :
        \/ \E n \in names : n.name = k.loosename /\ slen[n.f] = klen[n.f]
        \/ \E r \in rows : r.k = k.k /\ Bound(r.pack) /\ slen[FileOf(r.pack)] >= r.off + r.len
=============================================================================
