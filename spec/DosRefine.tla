------------------------------ MODULE DosRefine ------------------------------
(***************************************************************************)
(* Refinement: the step-level model Dos (writer, reader, packer over       *)
(* single calls) implements the unbounded protocol DosProto under the      *)
(* state mapping below.  TLC checks it on the exhaustive configurations of *)
(* Dos (PROPERTY ProtoSpec); Apalache proves that DosProto's invariant     *)
(* IndInv is inductive and implies Safe and Dur.  Together with the        *)
(* step-level conformance of real executions to Dos (DosConf) this links   *)
(* the code to an argument that does not depend on the length of the       *)
(* schedule or on the number of writer calls and packer rounds.            *)
(***************************************************************************)
EXTENDS Dos

pLoose == {k \in Keys : loose[k] = "good"}
pLsync == {k \in Keys : loose[k] = "good" /\ looseSynced[k]}
pSb    == IF sbx # Nil /\ sbx.synced THEN {sbx.k} ELSE {}
pWsaw  == IF wpc \in {"w_hash", "w_cleanup"} /\ wi <= Len(WriterAdds) THEN {WriterAdds[wi]} ELSE {}
pVis   == Range(pk)
pDur   == Range(SubSeq(pk, 1, pkSynced))
pIdx   == KeysOf(idx)
pPpc   == CASE ppc \in {"p_list", "p_select", "p_done"} -> "idle"
            [] ppc \in {"p_lock", "p_copy", "p_flush"}   -> "copy"
            [] ppc = "p_fsync"                           -> "flushed"
            [] ppc \in {"p_unlock", "p_commit"}          -> "synced"
            [] ppc = "p_unlink"                          -> "committed"
            [] ppc = "c_list"                            -> (IF ptodo = <<>> THEN "idle" ELSE "committed")
            [] ppc = "c_unlink"                          -> "clean"
pPtodo == IF pPpc \in {"idle", "clean"} THEN {} ELSE Range(ptodo)
pPclean == IF ppc = "c_unlink" THEN pclean ELSE {}

P == INSTANCE DosProto WITH Keys <- Keys, UnlinkEarly <- FALSE, Loose0 <- Initial, Packed0 <- Range(InitialPacked),
        loose <- pLoose, lsync <- pLsync, sb <- pSb, wsaw <- pWsaw, vis <- pVis, dur <- pDur, idx <- pIdx,
        ptodo <- pPtodo, pclean <- pPclean, ppc <- pPpc, acked <- acked

ProtoSpec == P!Init /\ [][P!Next]_(P!vars)
ProtoInv == P!IndInv
==============================================================================
