------------------------------- MODULE DosPred -------------------------------
(***************************************************************************)
(* Property predicates of the object store over an *observation record*.   *)
(*                                                                         *)
(* One definition each, used (a) as invariants of the design model DosSeq  *)
(* (over ObsOf(model state)), and (b) as invariants of the trace monitors  *)
(* (over observations projected from the real container with sqlite3 +     *)
(* zlib + hashlib only).                                                   *)
(*                                                                         *)
(* An observation o is a record                                            *)
(*   loose : Seq([k, tag])              files under loose/, tag good/bad   *)
(*   rows  : Seq([k, p, off, len, z, size, tag])  committed index rows;    *)
(*           tag = "whole" iff the designated range lies in the pack,      *)
(*           inflates when z, has digest k and length size                 *)
(*   packs : Seq([p, len])              pack files and their lengths       *)
(* Keys are content identities (the store is content-addressed and         *)
(* collision-free by assumption), so bytes never appear in the spec.       *)
(***************************************************************************)
EXTENDS Integers, Sequences, FiniteSets, SequencesExt

SeqToSet(s) == {s[i] : i \in DOMAIN s}

Rows(o) == SeqToSet(o.rows)
Packs(o) == SeqToSet(o.packs)
LooseKeys(o) == {x.k : x \in SeqToSet(o.loose)}
RowKeys(o) == {r.k : r \in Rows(o)}
StoreKeys(o) == LooseKeys(o) \cup RowKeys(o)
PackIds(o) == {pk.p : pk \in Packs(o)}
PackLen(o, p) == LET s == {pk \in Packs(o) : pk.p = p} IN IF s = {} THEN 0 - 1 ELSE (CHOOSE pk \in s : TRUE).len
RowsIn(o, p) == {r \in Rows(o) : r.p = p}

RECURSIVE SumLens(_)
SumLens(S) == IF S = {} THEN 0 ELSE LET r == CHOOSE x \in S : TRUE IN r.len + SumLens(S \ {r})
RECURSIVE SumSizes(_)
SumSizes(S) == IF S = {} THEN 0 ELSE LET r == CHOOSE x \in S : TRUE IN r.size + SumSizes(S \ {r})
RECURSIVE SumPackLens(_)
SumPackLens(S) == IF S = {} THEN 0 ELSE LET r == CHOOSE x \in S : TRUE IN r.len + SumPackLens(S \ {r})

(* packs are filled in order: an entry made later never lies in a lower-numbered pack than an entry made earlier
   (index ids grow with every insertion; histories without repack) *)
FilledInOrder(o) == \A r1, r2 \in Rows(o) : r1.id < r2.id => r1.p <= r2.p

MaxEnd(S) == IF S = {} THEN 0 ELSE LET e == {r.off + r.len : r \in S} IN CHOOSE m \in e : \A x \in e : x <= m

-----------------------------------------------------------------------------
(* C03: index and packs mutually consistent and self-describing.           *)

RowsWhole(o)      == \A r \in Rows(o) : r.tag = "whole"
RowsInsidePack(o) == \A r \in Rows(o) : /\ r.p \in PackIds(o)
                                         /\ r.off >= 0 /\ r.len >= 0
                                         /\ r.off + r.len <= PackLen(o, r.p)
RowsDisjoint(o)   == \A r1, r2 \in Rows(o) :
                        (r1 # r2 /\ r1.p = r2.p) => (r1.off + r1.len <= r2.off \/ r2.off + r2.len <= r1.off)
KeysUnique(o)     == Cardinality(RowKeys(o)) = Len(o.rows)
PlainSizeIsLen(o) == \A r \in Rows(o) : (~r.z) => r.size = r.len
LooseNamedByDigest(o) == \A x \in SeqToSet(o.loose) : x.tag = "good"
LooseUnique(o)    == Cardinality(LooseKeys(o)) = Len(o.loose)

IndexOK(o) == /\ RowsWhole(o) /\ RowsInsidePack(o) /\ RowsDisjoint(o)
              /\ KeysUnique(o) /\ PlainSizeIsLen(o) /\ LooseNamedByDigest(o)

-----------------------------------------------------------------------------
(* C09: at most one index entry and one loose file per key.                *)
Dedup(o) == KeysUnique(o) /\ LooseUnique(o)

(* no-holes: a direct-to-pack call with the option leaves every pack it    *)
(* touched equal, beyond its previous length, to referenced bytes only and *)
(* does not grow any pack for content the index already knew.              *)
NoHolesPost(o1, o2, knownBefore) ==
    \A pk \in Packs(o2) :
        LET before == IF pk.p \in PackIds(o1) THEN PackLen(o1, pk.p) ELSE 0
            newrows == {r \in RowsIn(o2, pk.p) : r.k \notin knownBefore}
        IN /\ pk.len = before + SumLens(newrows)
           /\ \A r \in newrows : r.off >= before

-----------------------------------------------------------------------------
(* C13: packs are append-only and filled in order.                         *)
(* grow : Seq([p, refsame, len0, end0]) is computed by the harness from the *)
(* bytes before and after the step: refsame = every byte range referenced  *)
(* by the index before the step still holds the same bytes.                *)
AppendOnly(o1, o2, grow) ==
    /\ \A g \in SeqToSet(grow) : g.refsame /\ g.p \in PackIds(o2) /\ PackLen(o2, g.p) >= g.end0
    /\ \A p \in PackIds(o1) : \E g \in SeqToSet(grow) : g.p = p

PackNumbering(o, target) ==
    LET ids == PackIds(o) IN
    /\ \A p \in ids : p >= 0
    /\ \A p \in ids : \A q \in 0..p : q \in ids
    /\ \A p \in ids : (\E q \in ids : q > p) => PackLen(o, p) >= target

(* no step other than a repack writes to a pack that is not the highest-numbered one *)
OnlyLastPackGrows(o1, o2) ==
    \A p \in PackIds(o1) :
        (PackLen(o2, p) # PackLen(o1, p)) => (\A q \in PackIds(o1) : q <= p)

-----------------------------------------------------------------------------
(* C10: compression mode honoured; sizes and totals.                       *)
ModeAllows(mode, z) == CASE mode = "YES"  -> z
                         [] mode = "NO"   -> ~z
                         [] mode = "AUTO" -> TRUE
                         [] OTHER         -> TRUE

(* rows touched by a pack_all_loose(mode): the keys that were not indexed before *)
PackModeHonoured(o1, o2, mode) ==
    \A r \in Rows(o2) : (r.k \notin RowKeys(o1)) => ModeAllows(IF mode = "KEEP" THEN "NO" ELSE mode, r.z)

(* repack(mode): every row; KEEP keeps the stored form (flag and stored length) *)
RepackModeHonoured(o1, o2, mode) ==
    /\ \A r \in Rows(o2) : ModeAllows(mode, r.z)
    /\ mode = "KEEP" => \A r \in Rows(o2) : \E q \in Rows(o1) : q.k = r.k /\ q.z = r.z /\ q.len = r.len

TotalsAreSums(o, total) ==
    /\ total.packed = SumSizes(Rows(o))
    /\ total.packed_on_disk = SumLens(Rows(o))
    /\ total.packfiles = SumPackLens(Packs(o))

-----------------------------------------------------------------------------
(* C11: after a full repack each pack is the concatenation of its live rows *)
RepackCompact(o) ==
    /\ \A pk \in Packs(o) : /\ RowsIn(o, pk.p) # {}
                            /\ pk.len = SumLens(RowsIn(o, pk.p))
                            /\ pk.p >= 0
    /\ RowsDisjoint(o) /\ RowsInsidePack(o)
=============================================================================
