------------------------------ MODULE BackupConf ------------------------------
(***************************************************************************)
(* Conformance of real backups to DosBackup (code -> spec).  One trace per *)
(* backup taken by the real backup_container with the real rsync: the      *)
(* phases in the order the code really ran them (classified from the       *)
(* arguments of each rsync call and the SQLite dump), the concurrent       *)
(* clients' calls where they were placed, the source's state when the      *)
(* backup started and the raw projection of the finished backup.  Each     *)
(* line must be an enabled DosBackup action; the last line compares the    *)
(* model's backup (loose copies, keys of the dumped index) with the real   *)
(* folder.  A backup_container that runs its phases in another order, or   *)
(* whose last phase copies the live index files, gets stuck here.          *)
(***************************************************************************)
EXTENDS DosBackup, Json, IOUtils

All == ndJsonDeserialize(IOEnv.TRACE_FILE)
NTraces == Len(All)
VARIABLES tid, l
cvars == <<vars, tid, l>>
T == All[tid]
Lines == T.lines
S2(s) == {s[i] : i \in DOMAIN s}

CInit == /\ tid \in 1..NTraces /\ l = 0
         /\ sl = S2(All[tid].loose0) /\ sp = All[tid].packed0
         /\ si = {[k |-> All[tid].packed0[i], pos |-> i] : i \in DOMAIN All[tid].packed0}
         /\ ptodo = <<>> /\ ppc = "idle" /\ rounds = PackRounds /\ crounds = CleanRounds /\ dk = ""
         /\ bl = {} /\ bi = {} /\ bp = <<>> /\ pos = 0 /\ seen = {} /\ plen0 = 0 /\ existed = {}

Ln == Lines[l + 1]
Is(e) == l < Len(Lines) /\ Ln.e = e
Step == \/ Is("begin") /\ BBegin
        \/ Is("add") /\ Add(Ln.k)
        \/ Is("pstart") /\ \E o \in Perms(sl \ KeysOf(si)) : PStart(o)
        \/ Is("pappend") /\ PAppend
        \/ Is("pcommit") /\ PCommit
        \/ Is("pdone") /\ PDone
        \/ Is("pcleanown") /\ PCleanOwnAll
        \/ Is("cstart") /\ CStart
        \/ Is("cleanall") /\ CleanAll
        \/ Is("dappend") /\ DAppend(Ln.k)
        \/ Is("dcommit") /\ DCommit
        \/ Is("loose") /\ BLooseAll
        \/ Is("dump") /\ BDump
        \/ Is("idx") /\ BIdx
        \/ Is("packs") /\ \E n \in 0..Len(sp) : BPacks(n)
        \/ Is("rest") /\ BRest(Ln.live)
        \/ /\ Is("end") /\ Phase = "done"
           /\ bl = S2(Ln.loose) /\ KeysOf(bi) = S2(Ln.rows) /\ BackupValid
           /\ UNCHANGED vars
CNext == Step /\ l' = l + 1 /\ tid' = tid
CSpec == CInit /\ [][CNext]_cvars

Track == TLCSet(tid, IF TLCGet(tid) < l THEN l ELSE TLCGet(tid))
ASSUME \A t \in 1..NTraces : TLCSet(t, 0)
Report == \A t \in 1..NTraces : PrintT(<<"REACHED", t, TLCGet(t), Len(All[t].lines)>>)
==============================================================================
