------------------------------- MODULE MC_Seq -------------------------------
(* Exhaustive configuration of DosSeq: one handle (re-opened at will), three *)
(* contents of sizes 1, 2, 3 (k2 and k3 compressible, k1 grows when deflated),*)
(* pack target 3 so that calls spill over several packs.                     *)
EXTENDS DosSeq
CONSTANT MaxDepth

MCKeys == {"k1", "k2", "k3"}
MCSize == [k \in MCKeys |-> CASE k = "k1" -> 1 [] k = "k2" -> 2 [] OTHER -> 3]
MCZLen == [k \in MCKeys |-> CASE k = "k1" -> 2 [] k = "k2" -> 1 [] OTHER -> 2]
MCAutoZ == [k \in MCKeys |-> k # "k1"]
MCSrc == {"k1", "k3"}

Batches == {<<a>> : a \in MCKeys} \cup {<<a, b>> : a, b \in MCKeys}

MCNext == NextWith(Batches, SUBSET Keys, {{}, Keys} \cup {{k} : k \in Keys}, {Keys, {"k1"}, {"k3", "k2"}}, MCSrc,
                   {"NO", "YES", "AUTO"}, {"NO", "YES", "KEEP", "AUTO"})

MCSpec == Init /\ [][MCNext]_vars
(* the same with stale lock files of killed writers as environment steps *)
MCNextLocks == NextWithLocks(Batches, SUBSET Keys, {{}, Keys} \cup {{k} : k \in Keys}, {Keys, {"k1"}, {"k3", "k2"}}, MCSrc,
                             {"NO", "YES", "AUTO"}, {"NO", "YES", "KEEP", "AUTO"}, TRUE)
MCSpecLocks == Init /\ [][MCNextLocks]_vars
MCViewLocks == <<core, locked, tmpleft>>
Depth == TLCGet("level") <= MaxDepth
MCView == core
=============================================================================
