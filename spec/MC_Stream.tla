---------------------------- MODULE MC_Stream ----------------------------
EXTENDS Stream
(* Alphabet of calls explored for an object of N units: every target from  *)
(* two units before the start to two units after the end, for each whence. *)
MCSeekTargets == { <<t, w>> \in ((0 - N - 2)..(N + 2)) \X {0, 1, 2} :
                      /\ (w = 0 => t \in (0 - 1)..(N + 2))
                      /\ (w = 2 => t \in (0 - N - 2)..2) }
MCReadSizes == {0 - 1, 0, 1, 2, N + 2}
==========================================================================
