------------------------------ MODULE ConcTrace ------------------------------
(***************************************************************************)
(* Monitor for concurrent executions (C04): one trace per distinct logical *)
(* execution of {writers, readers, one packer} under a recorded schedule.  *)
(* Lines (in global order):                                                *)
(*   addstart/ack  a writer starts / has returned from add_object(k);      *)
(*                 ok = the returned key is the digest of the content      *)
(*   readstart     a reader starts a read of `keys`                        *)
(*   readret       the read returned: res = [k, cls] with cls the          *)
(*                 classification of the bytes against the content table   *)
(*   crashed       an actor raised something the API does not promise      *)
(*   final         raw projection + reads of a fresh handle at the end     *)
(* The monitor keeps `acked` (contents whose addition has returned or that *)
(* existed beforehand) and, per actor, the subset that was acknowledged    *)
(* when its current read started: those must be found, with their bytes.   *)
(***************************************************************************)
EXTENDS DosPred, TLC, Json, IOUtils

All == ndJsonDeserialize(IOEnv.TRACE_FILE)
Header == All[1]
NTraces == Len(All) - 1
Trace(t) == All[t + 1]
Actors == SeqToSet(Header.actors)
Acked0 == SeqToSet(Header.acked0)

VARIABLES tid, l, acked, started, everAdded
vars == <<tid, l, acked, started, everAdded>>

Ln == Trace(tid).lines[l]

Apply(line, ack, st, ever) ==
    CASE line.e = "ack"       -> <<ack \cup {line.k}, st, ever>>
      [] line.e = "addstart"  -> <<ack, st, ever \cup {line.k}>>
      [] line.e = "readstart" -> <<ack, [st EXCEPT ![line.a] = ack \cap SeqToSet(line.keys)], ever>>
      [] OTHER                -> <<ack, st, ever>>

Init == /\ tid \in 1..NTraces
        /\ l = 1
        /\ LET r == Apply(Trace(tid).lines[1], Acked0, [a \in Actors |-> {}], Acked0)
           IN acked = r[1] /\ started = r[2] /\ everAdded = r[3]

Next == /\ l < Len(Trace(tid).lines)
        /\ l' = l + 1 /\ tid' = tid
        /\ LET r == Apply(Trace(tid).lines[l + 1], acked, started, everAdded)
           IN acked' = r[1] /\ started' = r[2] /\ everAdded' = r[3]

Spec == Init /\ [][Next]_vars

-----------------------------------------------------------------------------
(* every object acknowledged before the read started is found with exactly its bytes; nothing is ever
   partial or another object's bytes; content nobody ever added is never "found" *)
C04_ReadCorrect ==
    Ln.e = "readret" =>
        \A r \in SeqToSet(Ln.res) :
            /\ r.cls \in {"OK", "NotExistent"}
            /\ r.k \in started[Ln.a] => r.cls = "OK"
            /\ r.k \notin everAdded => r.cls = "NotExistent"

C04_WriteKeyCorrect == Ln.e = "ack" => Ln.ok

C04_NoUnexpectedFailure == Ln.e # "crashed"

C04_FinalStateOK ==
    Ln.e = "final" =>
        /\ IndexOK(Ln.obs)
        /\ \A r \in SeqToSet(Ln.res) : IF r.k \in acked THEN r.cls = "OK" ELSE r.cls \in {"OK", "NotExistent"}
        /\ acked \subseteq StoreKeys(Ln.obs)
=============================================================================
