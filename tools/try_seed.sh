#!/bin/bash
# usage: tools/try_seed.sh <seed dir containing patch.diff> <property id ...>
# applies the patch to /repo, runs the quick checks, always reverts.
d=$1; shift
cd /repo || exit 2
git apply --check "$d/patch.diff" || { echo "PATCH DOES NOT APPLY"; exit 2; }
git apply "$d/patch.diff"
trap 'git -C /repo checkout -- . ; git -C /repo status --short | head' EXIT
cd /verif
for p in "$@"; do
  echo "=== $p on $(basename $d)"; ./check $p 2>&1 | grep -E "^VIOLATION|^KNOWN|^\[C|MACHINERY" | head -8
done
