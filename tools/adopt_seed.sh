#!/bin/bash
# usage: tools/adopt_seed.sh C07 c   -- copies /tmp/wt/C07c-out to seeded/C07-c, confirms it and runs the detection matrix (logs in /tmp/wt)
id=$1; suf=$2; s=$id-$suf
mkdir -p /verif/seeded/$s
cp /tmp/wt/${id}${suf}-out/{patch.diff,demo.py,meta.json} /verif/seeded/$s/
/verif/tools/confirm_seed.sh /verif/seeded/$s > /tmp/wt/confirm_all_$s.log 2>&1
MATRIX_TAG=_$s /verif/tools/seed_matrix.sh $s > /tmp/wt/matrix_$s.log 2>&1
cat /tmp/wt/confirm_all_$s.log /tmp/wt/matrix_$s.log | cut -c1-300
