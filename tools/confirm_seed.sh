#!/bin/bash
# usage: tools/confirm_seed.sh <seed dir>   -- confirms demo passes on HEAD, fails with patch, tests still pass
d=$(readlink -f "$1"); name=$(basename "$d")
wt=/tmp/wt/confirm-$name
git -C /repo worktree remove --force "$wt" 2>/dev/null
git -C /repo worktree add --detach "$wt" HEAD >/dev/null 2>&1 || exit 2
cd "$wt"
PYTHONPATH="$wt" timeout 600 /venv/bin/python "$d/demo.py" >/tmp/wt/confirm-$name.base.log 2>&1; base=$?
git apply "$d/patch.diff" || { echo "$name: PATCH DOES NOT APPLY"; git -C /repo worktree remove --force "$wt"; exit 2; }
PYTHONPATH="$wt" timeout 600 /venv/bin/python "$d/demo.py" >/tmp/wt/confirm-$name.patched.log 2>&1; patched=$?
/venv/bin/python -m pytest -q -p no:cacheprovider -n 6 --timeout=900 2>&1 | grep -E "^FAILED|passed|failed" > /tmp/wt/confirm-$name.tests.log
newfail=$(grep "^FAILED" /tmp/wt/confirm-$name.tests.log | grep -v -E "test_backup.py|test_cli.py::test_backup|test_main_command|test_cli.py::test_validate|test_clean_storage_with_duplicates|test_delete_with_duplicates" | wc -l)
echo "$name: demo_on_head=$base demo_with_patch=$patched new_test_failures=$newfail $(tail -1 /tmp/wt/confirm-$name.tests.log)"
cd /; git -C /repo worktree remove --force "$wt"
