#!/bin/bash
# Runs every seeded change against the quick check of its property, in a scratch worktree of /repo and a snapshot of /verif.
# usage: tools/seed_matrix.sh [seed ...]   (default: all); output: one line per seed
set -u
tag=${MATRIX_TAG:-}; snap=/tmp/wt/verif-snap$tag; wt=/tmp/wt/matrix$tag
git -C /verif worktree remove --force $snap 2>/dev/null; git -C /verif worktree add --detach $snap HEAD >/dev/null 2>&1
git -C /repo worktree remove --force $wt 2>/dev/null; git -C /repo worktree add --detach $wt HEAD >/dev/null 2>&1
seeds=${@:-$(ls /verif/seeded)}
for s in $seeds; do
  d=/verif/seeded/$s; prop=${s%%-*}
  patch=$d/patch.diff; [ -f $d/patch_rebased.diff ] && patch=$d/patch_rebased.diff
  git -C $wt checkout -q -- . ; 
  if ! git -C $wt apply $patch 2>/dev/null; then echo "$s: PATCH-DOES-NOT-APPLY"; continue; fi
  props=$prop; [ -f $d/checks ] && props=$(cat $d/checks)
  for pr in $props; do
    out=$(cd $snap && VERIF_REPO=$wt ./check $pr 2>&1)
    n=$(echo "$out" | grep -c "^VIOLATION property=$pr")
    first=$(echo "$out" | grep -A1 "^VIOLATION" | sed -n 2p | cut -c1-160)
    rc=$(echo "$out" | grep -c MACHINERY)
    echo "$s: check=$pr violations=$n machinery=$rc :: $first"
  done
done
git -C $wt checkout -q -- . ; git -C /repo worktree remove --force $wt; git -C /verif worktree remove --force $snap
