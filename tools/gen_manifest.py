#!/venv/bin/python
"""Generate MANIFEST.json from the table below (single source of truth for the claimed checks)."""
import json
import os

HERE = os.path.dirname(os.path.dirname(os.path.abspath(__file__)))

SEQ_NOTE = ('contents are identified with keys (no hash collisions assumed); bytes, digests and inflation are established by the '
            'projection (sqlite3 + zlib + hashlib only) and enter the traces as tags; model drift (a trace DosSeq cannot '
            'follow) is reported but never counted as a violation; SQLite atomic commit / WAL snapshot isolation trusted.')
SEQ_TECH = ('TLA+ design model DosSeq model-checked with TLC; histories (random + TLC-simulated behaviours) executed on the '
            'real library and validated by TLC: property predicates as invariants on every recorded state (monitor) and '
            'step-by-step conformance to DosSeq')

CHECKS = {
    'C01': {
        'category': 'exploration',
        'text': 'Paths.tla enumerates (write path, compress, size class, read path) and states the round-trip law on content '
                'identities; TLC dumps the graph and every Store->Read path is replayed with concrete bytes (sizes straddling '
                '64 KiB / 128 KiB / 512 KiB / 1 MiB, compressible / incompressible / mixed, short-read streams, lazily opened '
                'files) under configurations drawn from hash x prefix x zlib level x pack target; hashlib and byte equality decide.',
        'design_ref': 'DESIGN.md section 6 C01',
        'note': 'TLA+ does not reason about bytes, digests or deflate: the specification contributes the cover and the abstract '
                'law, the comparison is done on real bytes; claimed as exploration, not model checking.',
        'technique': 'TLA+ cover model (Paths.tla) enumerated by TLC, each transition replayed on the implementation with '
                     'concrete inputs (spec -> code)',
    },
    'C02': {
        'category': 'model_checking',
        'text': 'DosSeq (call-level design model with the L2 key->content map as ghost) is checked exhaustively by TLC '
                '(Refines, ViewsEqualMap, ListEqualsMap). Random and TLC-simulated histories over all public calls are run on '
                'the real library; after every call the raw projection, all views of a fresh handle and the call result are '
                'recorded and TLC evaluates C02_Views / C02_Result in every state; conformance of every trace to DosSeq.',
        'design_ref': 'DESIGN.md section 6 C02', 'note': SEQ_NOTE, 'technique': SEQ_TECH,
    },
    'C03': {
        'category': 'model_checking',
        'text': 'IndexOK (rows inside existing packs, disjoint, unique keys, designated range is exactly the object, plain '
                'size = length, loose files named by digest) is an invariant of DosSeq (TLC, exhaustive) and of every state of '
                'every recorded history, evaluated on a projection that uses sqlite3/zlib/hashlib only; the documented manual '
                'recovery recipe is executed for every key after every step.',
        'design_ref': 'DESIGN.md section 6 C03', 'note': SEQ_NOTE, 'technique': SEQ_TECH,
    },
    'C04': {
        'category': 'model_checking',
        'text': 'Deterministic scheduler (greenlets; every shared-state file-system call and SQL statement of the real library is '
                'a yield point). All placements of a packer prefix inside a reader/writer and vice versa (forms A/B, exhaustive '
                'in both positions), sampled 3-segment and 3-actor schedules, for 12 reader/writer kinds x packer variants. TLC '
                'evaluates ReadCorrect / WriteKeyCorrect / NoUnexpectedFailure / FinalStateOK (ConcTrace.tla) on every distinct '
                'logical trace. Design level: Dos.tla (step-level writer / reader / seeking reader / packer) model-checked by TLC '
                '(MC_Conc, MC_Conc_pinned, MC_Conc_seek; deviation configs must fail; thorough: liveness EveryCallReturns under '
                'weak fairness); 300 scheduled executions are checked step by step against Dos (DosConf); Dos refines DosProto '
                '(TLC), whose invariant is inductive (Apalache).',
        'design_ref': 'DESIGN.md section 6 C04',
        'note': 'granularity = Python-level I/O calls and SQL statements (steps inside SQLite are atomic); single process, one '
                'connection per actor; schedules with more than 3 context switches are only sampled.',
        'technique': 'TLA+ step-level model Dos model-checked with TLC (+ inductive invariant of DosProto with Apalache, '
                     'refinement with TLC); systematic schedule enumeration on the real code under an interposition scheduler; '
                     'recorded traces validated by TLC against the monitor ConcTrace and, step by step, against Dos (DosConf)',
    },
    'C05': {
        'category': 'model_checking',
        'text': 'For 33 operation scenarios (quick; 37 thorough) the folder is snapshotted before every kernel-level I/O call (raw write, truncate, '
                'fsync, rename/replace/link/unlink/mkdir, open-for-write, close, SQL statement, COMMIT) plus torn-write images; '
                'each image is projected raw and read through a fresh handle; TLC evaluates Recoverable / NoTornObject / '
                'ReadsSafe (CrashTrace.tla) on every image; new handles rerun the operation on the images. Design level: Dos '
                '(MC_Crash*) and DosMaint (every maintenance operation compiled to its instruction program, incl. pack roll-over '
                'and import batching, Stop after any instruction) model-checked by TLC with deviations that must fail; the '
                'calls recorded for 87 cases must equal the compiled programs (MaintConf).',
        'design_ref': 'DESIGN.md section 6 C05',
        'note': 'a copy of the folder taken before call k is exactly what a kill at that boundary leaves (user-space buffers are '
                'not on disk); SQLite recovery of the copied WAL trusted; scenarios enumerate operation kinds and parameter '
                'variants, not all pre-states.',
        'technique': 'TLA+ step-level models Dos / DosMaint model-checked with TLC under Stop after any step; conformance of '
                     'recorded call sequences to the compiled programs (MaintConf); exhaustive crash-point enumeration on the '
                     'real code via interposition, images validated by TLC against the monitor CrashTrace',
    },
    'C06': {
        'category': 'model_checking',
        'text': 'Same enumeration as C05 with the power-loss image: every regular non-SQLite file keeps only the bytes present at '
                'its last fsync (pre-existing content counts as synced, never-synced files are empty), names and committed '
                'index transactions survive. TLC evaluates DurableVisible / NoTornObject / ReadsSafe on every image; the recorded '
                'write/truncate/fsync/bind/unbind/commit events are also replayed through the inode machine DurTrace, for the '
                'fault-free run and for each run in which one fsync of a regular file fails. Design '
                'level: Dos and DosMaint with PowerLoss after any step (TLC; deviations SkipPackFsync, RenameBeforeFsync, '
                'CommitBeforeFsync, ImportFsyncOnlyLast must fail).',
        'design_ref': 'DESIGN.md section 6 C06',
        'note': 'the fault model is the one stated by the property; fsync calls are observed per inode by the shim; default '
                'fsync settings only.',
        'technique': 'TLA+ step-level models Dos / DosMaint model-checked with TLC under PowerLoss; exhaustive crash-point '
                     'enumeration with an fsync-shadow power-loss model on the real code; images validated by TLC against '
                     'CrashTrace, recorded events against the event monitor DurTrace',
    },
    'C07': {
        'category': 'model_checking',
        'text': 'TLC explores Stream.tla (reference semantics of read/seek/tell incl. the allowed outcomes of out-of-range '
                'seeks) exhaustively for N in {0,1,3} and checks ReadsInside / InRangeLikeMemoryFile / RejectedKeepsPosition; '
                'the dumped state graph is the oracle for replaying every program up to length 3 (plus random longer ones) '
                'on real streams of every storage form, outcome by outcome.',
        'design_ref': 'DESIGN.md section 6 C07',
        'note': 'bytes are identified with object intervals (contents with distinct windows); internal chunk sizes are '
                'shrunk by the harness, a sample runs with the real ones on 600 KB objects; io.BytesIO is run through the '
                'same oracle.',
        'technique': 'TLA+ spec (Stream.tla) model-checked with TLC; TLC state graph replayed into the implementation '
                     '(spec -> code conformance)',
    },
    'C08': {
        'category': 'model_checking',
        'text': 'MC_Multi (DosSeq with three handles, pinned WAL snapshots per handle) is checked exhaustively to depth 7 by TLC '
                '(ViewsEqualMap, ListEqualsMap for every handle). Multi-handle histories (random and TLC-simulated) run on the '
                'real library with view calls (incl. listings abandoned after the first item) through long-open handles as explicit steps; TLC evaluates C08_HandleViews on '
                'every recorded state and checks conformance to the model.',
        'design_ref': 'DESIGN.md section 6 C08', 'note': SEQ_NOTE, 'technique': SEQ_TECH,
    },
    'C09': {
        'category': 'model_checking',
        'text': 'Dedup / NoHolesPost / KnownNoGrowth / ImportKnownNotWritten are invariants of DosSeq (TLC) and of every state of '
                'recorded histories biased towards recurring contents (within a batch, across batches, loose/packed forms, '
                'no_holes x read_twice x compress).',
        'design_ref': 'DESIGN.md section 6 C09', 'note': SEQ_NOTE, 'technique': SEQ_TECH,
    },
    'C10': {
        'category': 'model_checking',
        'text': 'PackModeHonoured / RepackModeHonoured / sizes / TotalsAreSums / transparency are evaluated by TLC on every state '
                'of histories biased towards pack/repack chains over all CompressModes and zlib levels 1..9; the design model '
                'transcribes should_compress for packed sources.',
        'design_ref': 'DESIGN.md section 6 C10', 'note': SEQ_NOTE, 'technique': SEQ_TECH,
    },
    'C11': {
        'category': 'model_checking',
        'text': 'DeleteExact and RepackCompact are action properties of DosSeq (TLC) and invariants of every recorded delete / '
                'repack step of histories biased towards deletions followed by repacks.',
        'design_ref': 'DESIGN.md section 6 C11', 'note': SEQ_NOTE, 'technique': SEQ_TECH,
    },
    'C12': {
        'category': 'model_checking',
        'text': '(i) validate() is recorded after every step of every history and must be clean (C12_ValidateClean). (ii) every '
                'single damage (a bit of each byte of each loose file and each referenced pack byte, truncations, +-1/flip on '
                'every field of every index row) is applied to a copy of a container; ground truth from the raw projection; '
                'TLC evaluates NeverCleanOnDamage and NamesTheObjectOrFails (DamageTrace.tla) on every line.',
        'design_ref': 'DESIGN.md section 6 C12',
        'note': 'quick flips one random bit per byte, thorough all 8; the quantification over bit positions is input '
                'enumeration by the harness, the specification contributes the classification and the oracle rule.',
        'technique': 'recorded validate() outcomes checked by TLC against TLA+ monitors (SeqTrace, DamageTrace); damage '
                     'enumeration by the harness',
    },
    'C13': {
        'category': 'model_checking',
        'text': 'AppendOnly / OnlyLastPackGrows (action properties) and PackNumbering (invariant) of DosSeq are checked by TLC; '
                'on recorded histories without repack (small pack targets, re-opened handles) TLC evaluates the same predicates '
                'on byte-level before/after facts of every pack file. Lock files left by killed writers are environment steps of '
                'the model (MC_SeqLocks) and of the histories: the next pack-writing call must be refused and change nothing.',
        'design_ref': 'DESIGN.md section 6 C13', 'note': SEQ_NOTE, 'technique': SEQ_TECH,
    },
    'C14': {
        'category': 'model_checking',
        'text': 'Import lattice (source forms, requested sets with absent and repeated keys, hash pairs, compress, budgets hitting '
                'the three cache branches, iterable kinds, callback, destination pre-content and pack target) as histories; TLC '
                'evaluates C14_ImportExact on every import step and conformance to DosSeq.Import.',
        'design_ref': 'DESIGN.md section 6 C14', 'note': SEQ_NOTE, 'technique': SEQ_TECH,
    },
    'C15': {
        'category': 'model_checking',
        'text': 'The real backup_container runs with the real rsync; a harness-side subclass of BackupManager and a wrapper of '
                'the SQLite dump call a hook at each of the 6 boundaries of the copy phases, where the concurrent steps of '
                'other (long-open) handles - loose adds, pack_all_loose with/without per-pack cleaning, clean_storage, direct-'
                'to-pack adds - are placed in every order-preserving assignment, for full and incremental backups. TLC '
                'evaluates Complete / ExposedReadCorrectly / ValidateClean / IndexOK (BackupTrace.tla) on every backup. Design '
                'level: DosBackup (the phases, file-by-file loose copy, partial pack copy, rsync quick check with --link-dest, '
                'against add / pack / clean / direct-add steps) model-checked by TLC, four deviations must fail; every real '
                'backup is replayed as DosBackup actions (BackupConf); the counterexample of the incremental quick-check '
                'deviation is replayed on the real code with both index dumps in the same second.',
        'design_ref': 'DESIGN.md section 6 C15',
        'note': 'placements are at phase boundaries, not inside the copy of a single phase (rsync internals are not scheduled); '
                'a backup that fails is outside the property and only counted.',
        'technique': 'TLA+ model DosBackup model-checked with TLC; systematic placement of concurrent steps at the copy-phase '
                     'boundaries of the real backup; recorded backups validated by TLC against the monitor BackupTrace and, '
                     'action by action, against DosBackup (BackupConf); TLC counterexample replayed on the code',
    },
    'C16': {
        'category': 'model_checking',
        'text': 'Merge.tla (transcription of detect_where_sorted) is model-checked for all pairs of sorted unique sequences over '
                '1..5 and all pairs of sequences of length <= 3 over 1..3; every terminal state of the TLC graph is replayed on '
                'the real helper. Bulk calls under default and lowered thresholds are recorded and TLC evaluates '
                'BulkIsPointwise / EachKeyOnce / FlagsPositional / SameOutcome (BulkTrace.tla). Bulk.tla transcribes the bulk '
                'lookup generator (IN-chunks / sorted scan, loose pass, retry on a fresh session, missing keys): TLC checks '
                'EachKeyOnce / Pointwise for all request sequences of length <= 4 and three deviations must fail; the phase '
                'order of recorded results is checked against it.',
        'design_ref': 'DESIGN.md section 6 C16',
        'note': 'thresholds are class attributes lowered from the harness; the real 950 threshold is crossed once (thorough: 9500).',
        'technique': 'TLA+ transcription model-checked with TLC and replayed into the code; recorded bulk calls validated by TLC',
    },
    'C17': {
        'category': 'model_checking',
        'text': 'For each scenario every I/O-relevant call (open, raw write, truncate, fsync, rename/replace/link/unlink/mkdir, '
                'SQL statement, COMMIT) fails once; outcome, raw projection, fresh-handle reads and the rerun through a new '
                'handle are recorded; TLC evaluates CompletesOrRaises / StoreIntact / ReadsSafe / RerunOK on every fault point '
                '(EIO / OperationalError, and PermissionError on loose-file calls and on pack writes while packing). Design level: '
                'Dos with Fault and DosMaint '
                'with Stop after any instruction (TLC).',
        'design_ref': 'DESIGN.md section 6 C17',
        'note': 'faults are injected at the Python call boundary (OSError EIO / OperationalError); single-fault sequences only, '
                'as the property states.',
        'technique': 'TLA+ step-level models Dos / DosMaint model-checked with TLC under a failing step; exhaustive single-fault '
                     'enumeration on the real code via interposition; outcomes validated by TLC against the monitor CrashTrace',
    },
    'C18': {
        'category': 'model_checking',
        'text': 'Descriptor census (/proc/self/fd) after every call of every history and after close (SeqTrace: C18_NoFdLeak, '
                'C18_ClosedNoFds); number of pack/loose files open during bulk reads; LazyOpener inputs open only while consumed; '
                'no accumulation over 25 rounds of operations; tracemalloc peaks of every streaming path for 1 and 16 MiB (thorough '
                '64 MiB) objects of three compressibility classes. TLC evaluates the bounds of ResTrace.tla on every line.',
        'design_ref': 'DESIGN.md section 6 C18',
        'note': 'peak memory is measured (tracemalloc), the specification only states the size-independent bound: TLA+ cannot '
                'derive memory use.',
        'technique': 'resource measurements on the real code checked by TLC against TLA+ monitors (SeqTrace, ResTrace)',
    },
}

PENDING = {}

ALL = [f'C{i:02d}' for i in range(1, 19)]


def main():
    checks = []
    for prop in sorted(CHECKS):
        info = CHECKS[prop]
        checks.append({
            'property_id': prop,
            'quick_cmd': f'./check {prop} --tier quick',
            'thorough_cmd': f'./check {prop} --tier thorough',
            'evidence_file': f'evidence/{prop}.json',
            'replay_cmd_template': f'./check {prop} --replay {{path}}',
            'engine': 'tla-trace',
            'level_claimed': {'category': info['category'], 'text': info['text'], 'design_ref': info['design_ref']},
            'level_note': info['note'],
            'technique': info['technique'],
        })
    manifest = {
        'version': 1,
        'setup_cmd': './setup.sh',
        'hooks': {
            'guard': 'DISK_OBJECTSTORE_VERIF',
            'enable': 'no source hooks: the checks interpose on open/os/fcntl/SQLAlchemy from outside (harness/shim.py); '
                      'the guard variable is reserved and set by the checks but nothing in /repo reads it',
            'baseline_off_cmd': 'cd /repo && /venv/bin/python -m pytest -ra -q -p no:cacheprovider --timeout=900 '
                                '--continue-on-collection-errors',
            'source_commits': [],
            'add_only': True,
        },
        'engines': [{
            'name': 'tla-trace',
            'path': 'check',
            'serves_properties': sorted(CHECKS),
            'kind_free_text': 'TLA+ specifications (spec/*.tla) checked with TLC; bound to the implementation by replaying '
                              'TLC-generated behaviours into the real library and by validating traces recorded from the '
                              'real library (interposition shim, scheduler, kill/power-loss/fault drivers) with TLC',
        }],
        'checks': checks,
        'not_applicable': [{'property_id': p, 'reason': PENDING.get(p, 'check not built yet in this round (see DESIGN.md '
                                                                  'section 10 for the build order); not claimed')}
                           for p in ALL if p not in CHECKS],
        'notes': 'Eight genuine defects were found and repaired by fix: commits in /repo; they are listed in KNOWN_FINDINGS.json (fixed, with the commit); no known finding is open. seeded/ holds 92 changes by independent sub-agents with the check that catches each (DESIGN.md section 8).',
    }
    with open(os.path.join(HERE, 'MANIFEST.json'), 'w', encoding='utf8') as handle:
        json.dump(manifest, handle, indent=1)
    print('MANIFEST.json written:', len(checks), 'checks')


if __name__ == '__main__':
    main()
