#!/venv/bin/python
"""Generate MANIFEST.json from the table below (single source of truth for the claimed checks)."""
import json
import os

HERE = os.path.dirname(os.path.dirname(os.path.abspath(__file__)))

CHECKS = {
    'C07': {
        'category': 'model_checking',
        'text': 'TLC explores Stream.tla (reference semantics of read/seek/tell incl. the allowed outcomes of out-of-range '
                'seeks) exhaustively for N in {0,1,3} and checks ReadsInside / InRangeLikeMemoryFile / RejectedKeepsPosition; '
                'the dumped state graph is the oracle for replaying every program up to length 3 (plus random longer ones) '
                'on real streams of every storage form, outcome by outcome.',
        'design_ref': 'DESIGN.md section 6 C07',
        'note': 'bytes are identified with object intervals (contents with distinct windows); internal chunk sizes are '
                'shrunk by the harness, a sample runs with the real ones on 600 KB objects; io.BytesIO is run through the '
                'same oracle.',
        'technique': 'TLA+ spec (Stream.tla) model-checked with TLC; TLC state graph replayed into the implementation '
                     '(spec -> code conformance)',
    },
}

PENDING = {}

ALL = [f'C{i:02d}' for i in range(1, 19)]


def main():
    checks = []
    for prop in sorted(CHECKS):
        info = CHECKS[prop]
        checks.append({
            'property_id': prop,
            'quick_cmd': f'./check {prop} --tier quick',
            'thorough_cmd': f'./check {prop} --tier thorough',
            'evidence_file': f'evidence/{prop}.json',
            'replay_cmd_template': f'./check {prop} --replay {{path}}',
            'engine': 'tla-trace',
            'level_claimed': {'category': info['category'], 'text': info['text'], 'design_ref': info['design_ref']},
            'level_note': info['note'],
            'technique': info['technique'],
        })
    manifest = {
        'version': 1,
        'setup_cmd': './setup.sh',
        'hooks': {
            'guard': 'DISK_OBJECTSTORE_VERIF',
            'enable': 'no source hooks: the checks interpose on open/os/fcntl/SQLAlchemy from outside (harness/shim.py); '
                      'the guard variable is reserved and set by the checks but nothing in /repo reads it',
            'baseline_off_cmd': 'cd /repo && /venv/bin/python -m pytest -ra -q -p no:cacheprovider --timeout=900 '
                                '--continue-on-collection-errors',
            'source_commits': [],
            'add_only': True,
        },
        'engines': [{
            'name': 'tla-trace',
            'path': 'check',
            'serves_properties': sorted(CHECKS),
            'kind_free_text': 'TLA+ specifications (spec/*.tla) checked with TLC; bound to the implementation by replaying '
                              'TLC-generated behaviours into the real library and by validating traces recorded from the '
                              'real library (interposition shim, scheduler, kill/power-loss/fault drivers) with TLC',
        }],
        'checks': checks,
        'not_applicable': [{'property_id': p, 'reason': PENDING.get(p, 'check not built yet in this round (see DESIGN.md '
                                                                  'section 10 for the build order); not claimed')}
                           for p in ALL if p not in CHECKS],
        'notes': 'Genuine defects found so far are listed in KNOWN_FINDINGS.json (fixed ones with their /repo commit).',
    }
    with open(os.path.join(HERE, 'MANIFEST.json'), 'w', encoding='utf8') as handle:
        json.dump(manifest, handle, indent=1)
    print('MANIFEST.json written:', len(checks), 'checks')


if __name__ == '__main__':
    main()
