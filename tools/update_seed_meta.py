#!/venv/bin/python
"""Fill seeded/<id>/meta.json with what the verifier ran: confirmation (tools/confirm_seed.sh) and detection (tools/seed_matrix.sh)."""
import glob
import json
import os
import re
import sys

conf, det = {}, {}
for path in sorted(glob.glob('/tmp/wt/confirm_all*.log')):
    for line in open(path):
        m = re.match(r'(C\d+-\w+): demo_on_head=(\d+) demo_with_patch=(\d+) new_test_failures=(\d+) (.*)', line)
        if m:
            conf[m.group(1)] = m.groups()[1:]
for path in sorted(glob.glob('/tmp/wt/matrix*.log')):
    for line in open(path):
        m = re.match(r'(C\d+-\w+): (?:check=(C\d+) )?violations=(\d+) machinery=(\d+) :: (.*)', line)
        if m:
            seed, check, n, _mach, first = m.groups()
            det.setdefault(seed, {})[check or seed.split('-')[0]] = (int(n), first.strip()[:300])
for seed in sorted(os.listdir('/verif/seeded')):
    path = f'/verif/seeded/{seed}/meta.json'
    if not os.path.exists(path):
        continue
    meta = json.load(open(path))
    c = conf.get(seed)
    if c:
        meta['confirmed_by_verifier'] = {
            'command': f'tools/confirm_seed.sh seeded/{seed}  (scratch worktree of /repo HEAD: demo on HEAD, demo with patch, full test-suite with patch)',
            'demo_exit_on_head': int(c[0]), 'demo_exit_with_patch': int(c[1]), 'new_test_failures_with_patch': int(c[2]),
            'test_summary': c[3].strip()}
    d = det.get(seed)
    if d:
        meta['detection'] = {
            'command': f'tools/seed_matrix.sh {seed}  (quick checks on a scratch worktree with the patch applied, VERIF_REPO)',
            'checks': {check: {'violations_reported': n, 'first': first} for check, (n, first) in d.items()},
            'detected': any(n > 0 for n, _ in d.values())}
    json.dump(meta, open(path, 'w'), indent=1)
missing = [s for s in sorted(os.listdir('/verif/seeded')) if s not in conf]
undetected = [s for s in sorted(os.listdir('/verif/seeded')) if not any(n > 0 for n, _ in det.get(s, {}).values())]
print('seeds', len(os.listdir('/verif/seeded')), 'unconfirmed', missing, 'undetected in logs', undetected)
